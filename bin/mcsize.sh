#!/bin/bash
# usage: mcsize.sh cfg... ; prints states/time for each config (scratch in /dev/shm)
for c in "$@"; do
  d=/dev/shm/tlc/size-$c; rm -rf $d; mkdir -p $d; cp /verif/spec/*.tla /verif/spec/$c.cfg $d/
  s=$(date +%s)
  out=$(cd $d && timeout ${T:-600} tlc -workers ${W:-16} -metadir $d/md -config $c.cfg MC.tla 2>&1)
  e=$(date +%s)
  echo "$c: $(echo "$out" | grep -o '[0-9]* states generated, [0-9]* distinct states found' | tail -1) depth=$(echo "$out" | grep -o 'depth of the complete state graph search is [0-9]*' | grep -o '[0-9]*$') $((e-s))s $(echo "$out" | grep -c 'No error has been found')ok"
  echo "$out" | grep -A25 "Error:" | head -40
  rm -rf $d
done
