"""Per-property checks. Every check: (1) TLC model-checks the specification
configuration(s) of the property, (2) the Go harness executes the real code
(built from /repo's working tree with -tags verif) under the gate controller,
(3) TLC validates the recorded traces against the specification and evaluates
the property's clauses at every event, (4) evidence is written."""
import glob, json, os, re, shutil, subprocess, time
import vlib
from vlib import log, Inconclusive, VERIF, SPEC, HARNESS, OUTROOT

# clause prefixes that decide each property in the core trace specification
CORE = {
    'C01': dict(prefixes=['C01_', 'C06_', 'C05_returned_before_applied', 'C05_ReturnedApplied'],   # 'whatever the physical segmentation happens to be'
                mc_q=[('MC_c01_q', 300)], mc_t=[('MC_c01_t', 1500)],
                fam_q=[('core', 200), ('merge', 80), ('dup', 4)], fam_t=[('core', 4000), ('merge', 1500), ('memmerge', 500), ('dup', 16)]),
    'C02': dict(prefixes=['C02_'], mc_q=[('MC_durable_q', 300)], mc_t=[('MC_durable', 1500)],
                fam_q=[('images', 32), ('memmerge', 48), ('core', 64), ('faults', 64)], fam_t=[('images', 400), ('memmerge', 600), ('crash2', 200), ('core', 1000), ('faults', 800)]),
    'C03': dict(prefixes=['C03_', 'C02_acked_lost', 'C02_AckedDurable', 'C11_reopen_after_close_failed'],   # '... durability and this property keep holding across any number of further crashes'
                mc_q=[('MC_crash2_q', 300), ('MC_durable_q', 300)], mc_t=[('MC_durable', 1500), ('MC_crash2_t', 1500)],
                fam_q=[('images', 24), ('crash2', 24), ('memmerge', 32), ('mergeimg', 12)], fam_t=[('images', 400), ('crash2', 400), ('memmerge', 600), ('mergeimg', 200)]),
    # C04: '... never faults, even after the files backing it were superseded' -> removal clauses about files in use count too
    'C04': dict(prefixes=['C04_', 'C11_removed_file_in_use', 'C11_OpenHandlesHaveFiles'], mc_q=[('MC_readers_q', 300)], mc_t=[('MC_readers_t', 1500)],
                fam_q=[('readers', 240), ('faults', 96), ('free', 48)], fam_t=[('readers', 4000), ('faults', 1500), ('free', 1000)]),
    'C05': dict(prefixes=['C05_', 'C01_RootIsAbstract', 'C01_reader'], mc_q=[('MC_linear_q', 300)], mc_t=[('MC_linear_t', 1500)],
                fam_q=[('conc', 200), ('free', 96), ('dfs2', 1)], fam_t=[('conc', 4000), ('free', 2000), ('dfs2', 3)]),
    # C06 also counts the on-disk clauses: a reader opened on the directory must not see content changed by an in-memory merge either
    'C06': dict(prefixes=['C06_', 'C03_EveryLoadableIsPrefix', 'C03_DiskIsPrefix', 'C03_recovered_not_prefix', 'C01_RootIsAbstract', 'C01_reader', 'C01_UpdateUnique'], mc_q=[('MC_merge_q', 300)], mc_t=[('MC_merge_t', 1500)],
                fam_q=[('merge', 200), ('memmerge', 64)], fam_t=[('merge', 4000), ('memmerge', 1000)]),
    # C11: '... removal never disturbs an open Reader'
    'C11': dict(prefixes=['C11_', 'C04_reader_changed', 'C04_NoUseAfterClose'], mc_q=[('MC_files_q', 300)], mc_t=[('MC_files_t', 1500)],
                fam_q=[('files', 240), ('filefaults', 96), ('memfaults', 64)], fam_t=[('files', 4000), ('filefaults', 1000), ('memfaults', 600)]),
    'C14': dict(prefixes=['C14_', 'C02_', 'C03_', 'C01_RootIsAbstract', 'C04_'], mc_q=[('MC_faults_q', 300)], mc_t=[('MC_faults_t', 1500)],
                fam_q=[('faults', 160), ('mergefaults', 96), ('persfaults', 96), ('memfaults', 64)], fam_t=[('faults', 3000), ('mergefaults', 800), ('persfaults', 600), ('memfaults', 600)]),
    # C15 also counts handle clauses: reference counts corrupted by a race show as handles closed twice / leaked
    'C15': dict(prefixes=['C15_', 'C04_reader_changed', 'C11_handle_closed_twice', 'C11_HandlesClosedOnce', 'C11_handle_leaked', 'C11_lock_not_released'], mc_q=[('MC_close_q', 300)], mc_t=[('MC_close_t', 1500), ('MC_live', 1500)],
                fam_q=[('close', 200), ('free', 96)], fam_t=[('close', 4000), ('free', 2000)]),
}

ASSUME_CORE = [
    'TLC (tla2tools 1.8.0) evaluates the specification correctly',
    'the verif-tag hooks only observe: they are one-line calls at the linearization points, logged under the protecting lock',
    'testing/synctest quiescence: when Wait() returns every goroutine is parked at a gate or durably blocked',
    'document identity is read from stored fields (_id, u, k) of the real segments',
]


def matches(clause, prefixes):
    return any(clause.startswith(p) for p in prefixes)


def apalache_policy(sd, tier):
    """Inductive-invariant check of the deletion-policy core (spec/Policy.tla) with Apalache:
    Init => IndInv, IndInv /\\ Next => IndInv', IndInv => C11_Retained /\\ C11_AtLeastN."""
    import concurrent.futures as cf
    wd = os.path.join(sd, 'apalache')
    os.makedirs(wd, exist_ok=True)
    for f in ('Policy.tla', 'Policy_inst.tla'):
        shutil.copy(os.path.join(SPEC, f), wd)
    consts = ['ConstInit'] if tier == 'quick' else ['ConstInit', 'ConstInit1', 'ConstInit3']
    obligations = [('init', ['--init=Init', '--inv=IndInv', '--length=0']),
                   ('step', ['--init=IndInit', '--inv=IndInv', '--length=1']),
                   ('goal', ['--init=IndInit', '--inv=GoalInv', '--length=0'])]

    def one(job):
        c, (name, args) = job
        od = os.path.join(wd, '%s-%s' % (c, name))
        os.makedirs(od, exist_ok=True)
        for f in ('Policy.tla', 'Policy_inst.tla'):
            shutil.copy(os.path.join(wd, f), od)
        p = subprocess.run(['timeout', '900', 'apalache-mc', 'check', '--cinit=' + c, '--out-dir=' + os.path.join(od, 'out')] + args + ['Policy_inst.tla'],
                           cwd=od, stdout=subprocess.PIPE, stderr=subprocess.STDOUT, text=True)
        return dict(constants=c, obligation=name, ok='EXITCODE: OK' in p.stdout, tail=p.stdout[-400:])
    with cf.ThreadPoolExecutor(max_workers=3) as ex:
        res = list(ex.map(one, [(c, o) for c in consts for o in obligations]))
    bad = [r for r in res if not r['ok']]
    if bad:
        raise Inconclusive('Apalache did not discharge %s/%s of Policy.tla: %s' % (bad[0]['constants'], bad[0]['obligation'], bad[0]['tail']))
    return [dict(constants=r['constants'], obligation=r['obligation'], ok=True) for r in res]


def core_check(prop, tier, seed, sd, t0):
    spec = CORE[prop]
    mcs = spec['mc_q'] if tier == 'quick' else spec['mc_t']
    fams = spec['fam_q'] if tier == 'quick' else spec['fam_t']
    # (1) the design
    mcres = []
    for name, timeout in mcs:
        if not os.path.exists(os.path.join(SPEC, name + '.cfg')):
            continue
        r = vlib.model_check(sd, name, 'MC.tla', name + '.cfg', timeout)
        log('model checked %s: %d distinct states, %d transitions, %.0fs' % (name, r['states'], r['transitions'], r['wall_s']))
        mcres.append(r)
    apa = None
    if prop == 'C11':
        apa = apalache_policy(sd, tier)
        log('Apalache discharged %d inductive-invariant obligations of Policy.tla' % len(apa))
    # (2) the code
    binp = vlib.build_harness(sd)
    total_runs = total_events = total_images = 0
    viols, known, samples, famstats = [], [], [], {}
    strict = []
    driver_deaths = []
    livelocks = []
    for fam, n in fams:
        out, logs = vlib.drive(binp, sd, fam, n, seed, timeout=900 if tier == 'quick' else 3000)
        for shard, rc, o in logs:
            if rc != 0:
                tail = o[:4000] + '\n...\n' + o[-4000:]
                if rc == 77 and 'harness-watchdog: livelock' in o:
                    # which goroutines were busy (not blocked) inside the code under test?
                    busy = [g.split('\n')[0] + ' ' + ' <- '.join(re.findall(r'github.com/blugelabs/bluge/index\.\(?\*?\w*\)?\.?(\w+)', g)[:4])
                            for g in o.split('\n\n') if re.match(r'goroutine \d+ \[(running|runnable)', g) and 'github.com/blugelabs/bluge/index.' in g]
                    # ... or blocked on a mutex for all that time (a lock-order deadlock: synctest only counts channel / WaitGroup / Cond waits as durable)
                    locked = [g.split('\n')[0] + ' ' + ' <- '.join(re.findall(r'github.com/blugelabs/bluge/index\.\(?\*?\w*\)?\.?(\w+)', g)[:4])
                              for g in o.split('\n\n') if re.match(r'goroutine \d+ \[sync\.(RW)?Mutex\.', g) and 'github.com/blugelabs/bluge/index.' in g]
                    tail = 'LIVELOCK busy goroutines of the code under test: %s; blocked on a mutex: %s\n%s' % (busy[:6], locked[:6], tail)
                    livelocks.append((fam, shard, busy + locked))
                driver_deaths.append((fam, shard, rc, tail))
        runs = vlib.load_runs(out)
        # (3) TLC decides every recorded execution
        for res in vlib.validate_all(sd, out):
            if not res['ok']:
                raise Inconclusive('trace validation did not complete for %s:\n%s' % (res['file'], res['out_tail']))
            total_events += res['events']
            for clause, line, run in res['viols']:
                meta = runs.get(run, {})
                scn = (meta.get('scenario') or {}).get('name', '?')
                if clause.startswith('STRICT_'):
                    # the real transition differs from BlugeCore's transition function: reported, never a verdict
                    strict.append((clause, run))
                    if len(strict) <= 5:
                        log('note: model divergence %s in run %d (%s) at line %d' % (clause, run, scn, line))
                    continue
                if not matches(clause, spec['prefixes']):
                    log('note: run %d (%s) fails clause %s of another property at line %d' % (run, scn, clause, line))
                    continue
                k = vlib.is_known(prop, clause, scn)
                if k:
                    known.append((k, run))
                    continue
                viols.append((clause, line, run, meta, res['file']))
        st = {}
        for f in glob.glob(os.path.join(out, 'stats-s*.json')):
            for k, v in json.load(open(f)).items():
                st[k] = st.get(k, 0) + v
        famstats[fam] = st
        total_runs += st.get('runs', 0)
        total_images += st.get('images', 0)
        if len(samples) < 3:
            tf = sorted(glob.glob(os.path.join(out, 'trace-keep*-s*.ndjson')))
            if tf:
                rs = [json.loads(l) for l in list(open(tf[0]))[:40]]
                samples.append(dict(family=fam, first_events_of_a_trace=[{k: v for k, v in e.items() if k in ('ev', 'proc', 'uid', 'epoch', 'kind', 'id', 'err', 'del', 'add')} for e in rs]))
    # verdict
    rc = 0
    seen = set()
    for k, run in known:
        if k['key'] not in seen:
            seen.add(k['key'])
            log('KNOWN-FINDING: property=%s %s' % (prop, k['what']))
    replay = None
    for clause, line, run, meta, tf in viols[:5]:
        lines = vlib.extract_run(tf, run)
        replay = vlib.save_replay(prop, seed, meta, lines, clause, line)
        log('VIOLATION property=%s replay=%s' % (prop, replay))
        log('  clause %s failed at event %d of run %d (scenario %s)' % (clause, line, run, (meta.get('scenario') or {}).get('name')))
        rc = 1
    if driver_deaths:
        fam, shard, drc, tail = driver_deaths[0]
        d = os.path.join(OUTROOT, 'replays', prop, '%d-%s-driver-death' % (int(time.time()), seed))
        os.makedirs(d, exist_ok=True)
        open(os.path.join(d, 'driver.log'), 'w').write(tail)
        crumbs = glob.glob(os.path.join(sd, 'out-' + fam, 'current-s%d.json' % shard))
        if crumbs:
            shutil.copy(crumbs[0], os.path.join(d, 'meta.json'))
        in_code = 'github.com/blugelabs/bluge' in tail and ('panic' in tail or 'fatal error' in tail or 'SIGSEGV' in tail)
        harness_bug = 'harness:' in tail
        if drc == 77 and tail.startswith('LIVELOCK') and any(b for _, _, b in livelocks) and prop in ('C14', 'C15'):
            # goroutines of the writer spin (never durably blocked, so synctest cannot call it a deadlock): it does not terminate
            log('VIOLATION property=%s replay=%s' % (prop, d))
            log('  livelock / lock deadlock: no event for 90 s of real time inside one execution while goroutines of the writer stay busy or wait for a mutex: %s (family %s shard %d)'
                % (livelocks[0][2][:3], fam, shard))
            rc = 1
        elif in_code and not harness_bug and prop in ('C03', 'C04', 'C14', 'C15'):
            log('VIOLATION property=%s replay=%s' % (prop, d))
            log('  the driver process died inside the code under test (family %s shard %d rc %d)' % (fam, shard, drc))
            rc = 1
        elif rc == 0:
            raise Inconclusive('driver died (family %s shard %d rc %d); log in %s\n%s' % (fam, shard, drc, d, tail[-1500:]))
    states = sum(r['states'] for r in mcres)
    trans = sum(r['transitions'] for r in mcres)
    cov = dict(states=states, transitions=trans, traces_validated_against_impl=total_runs, samples=samples or [dict(note='no traces')],
               trace_events_validated=total_events, crash_images_reopened=total_images, model_configs=mcres, families=famstats,
               evaluations=total_runs + total_images, distinct_nontrivial=total_runs,
               rule='executions of the real writer under seeded gate schedules (one per generated scenario); every execution is a distinct '
                    '(scenario, schedule) pair and is validated event by event by TLC against BlugeCore/BlugeTrace; clauses of this property: '
                    + ', '.join(spec['prefixes']),
               exhaustive=False, known_findings=[k['key'] for k, _ in known][:5],
               model_divergences=len(strict),
               model_divergence_rule='every logged batch / merge / persist-swap introduction is compared with what BlugeCore\'s pure transition functions '
                                     '(AfterBatch, MergedRoot incl. the skipped flag, SwapRoot) compute from the previous logged root, the optimistic root of the batch, '
                                     'the merge task and the grabbed snapshot; 0 means the model-checked transition functions predicted every real root exactly')
    if apa is not None:
        cov['apalache_obligations'] = apa
        cov['apalache_note'] = ('Policy.tla: IndInv is an inductive invariant of the keep-N policy + the persister\'s persist-before-commit obligation and implies '
                                'C11_Retained and C11_AtLeastN for any number of commits, clean-ups and failed removals (unbounded in the number of steps; epochs and '
                                'segment ids range over small finite domains)')
    nviol = len(viols)
    if prop in ('C01', 'C03'):
        # the same abstract index with thousands of documents per segment (BigIndexTrace.tla)
        rc2, bcov = vextra.big_subcheck(prop, tier, seed, sd, ('%s_big_' % prop,))
        cov['large_index'] = bcov
        if rc2:
            rc = 1
            nviol += bcov.get('violations', 1)
    if prop == 'C04':
        # many different searches on one reader, each twice (Search.tla / SearchTrace.tla)
        rc2, scov = vextra.search_subcheck(prop, tier, seed, sd, ('C04_', 'C07_'))   # C04: '... namely that of the abstract index at the time it was obtained'
        cov['searches_on_held_readers'] = scov
        if rc2:
            rc = 1
            nviol += scov.get('violations', 1)
    if prop == 'C11':
        # handles of the offline writer (Offline.tla / OfflineTrace.tla)
        rc2, ocov = vextra.offline_subcheck(prop, tier, seed, sd, ('C11_',))
        cov['offline_writer'] = ocov
        if rc2:
            rc = 1
            nviol += ocov.get('violations', 1)
    vlib.write_evidence(prop, tier, seed, 'model_checking', cov, ASSUME_CORE, time.time() - t0, nviol)
    log('%s %s: %d model states, %d executions (%d events, %d crash images) validated, %d violations, %.0fs'
        % (prop, tier, states, total_runs, total_events, total_images, len(viols), time.time() - t0))
    return rc


CHECKS = {p: core_check for p in CORE}
import vextra
CHECKS.update(vextra.CHECKS)


def setup():
    rc = 0
    sd = vlib.scratch_dir('setup')
    try:
        for f in sorted(glob.glob(os.path.join(SPEC, '*.tla'))):
            shutil.copy(f, sd)
        for f in sorted(glob.glob(os.path.join(sd, '*.tla'))):
            p = subprocess.run(['tla-sany', os.path.basename(f)], cwd=sd, stdout=subprocess.PIPE, stderr=subprocess.STDOUT, text=True)
            bad = p.returncode != 0 or 'error' in p.stdout.lower().replace('semantic errors:\n\n', '')
            if p.returncode != 0 or '*** Errors' in p.stdout or 'Abort' in p.stdout:
                log('SANY failed for', f, p.stdout[-2000:])
                rc = 1
        try:
            vlib.build_harness(sd)
            for pkg in ('persistprobe', 'planprobe', 'searchprobe', 'collprobe', 'aggprobe', 'layoutprobe', 'offlineprobe', 'bigprobe'):
                vextra.go_build(sd, './cmd/' + pkg, pkg)
            log('harness and probes built')
        except Inconclusive as e:
            log(str(e))
            rc = 1
    finally:
        shutil.rmtree(sd, ignore_errors=True)
    if rc == 0:
        rc = selftest()
    return rc


def selftest():
    """Demonstrates that the specifications are bound to the code and are not vacuous:
    (1) the models with a known defect switched back on yield counterexamples,
    (2) a recorded trace of the real writer is accepted, and the same trace with one logged
        field corrupted / one event dropped is rejected with the expected clause."""
    sd = vlib.scratch_dir('selftest')
    ok = True
    try:
        # (1a) BlugeCore without the truncate repair: TLC must find the double-fault counterexample
        wd = os.path.join(sd, 'mc1')
        os.makedirs(wd)
        for f in glob.glob(os.path.join(SPEC, '*.tla')):
            shutil.copy(f, wd)
        cfg = open(os.path.join(SPEC, 'MC_durable_q.cfg')).read().replace('TruncateOnPersist = TRUE', 'TruncateOnPersist = FALSE')
        open(os.path.join(wd, 'x.cfg'), 'w').write(cfg)
        rc, out = vlib.tlc_run(wd, 'MC.tla', 'x.cfg', workers=8, timeout=600)
        hit = 'is violated' in out
        log('selftest: BlugeCore with TruncateOnPersist=FALSE -> %s' % ('counterexample found (' + (re.search(r'Invariant (\w+) is violated', out).group(1) if hit and re.search(r'Invariant (\w+) is violated', out) else 'property') + ')' if hit else 'NO counterexample'))
        ok &= hit
        # (1a') BlugeCore with the unrepaired persist-swap wait: Close between hand-over and application
        wd = os.path.join(sd, 'mc2')
        os.makedirs(wd)
        for f in glob.glob(os.path.join(SPEC, '*.tla')):
            shutil.copy(f, wd)
        cfg = open(os.path.join(SPEC, 'MC_close_q.cfg')).read().replace('WaitForSwap = TRUE', 'WaitForSwap = FALSE')
        open(os.path.join(wd, 'x.cfg'), 'w').write(cfg)
        rc, out = vlib.tlc_run(wd, 'MC.tla', 'x.cfg', workers=8, timeout=600)
        hit = 'Invariant C04_NoUseAfterClose is violated' in out
        log('selftest: BlugeCore with WaitForSwap=FALSE -> %s' % ('counterexample to C04_NoUseAfterClose' if hit else 'NO counterexample'))
        ok &= hit
        # (1a'') Offline.tla with the unrepaired snapshot-error path (D16)
        wd = os.path.join(sd, 'mc3')
        os.makedirs(wd)
        shutil.copy(os.path.join(SPEC, 'Offline.tla'), wd)
        cfg = open(os.path.join(SPEC, 'MC_offline.cfg')).read().replace('CloseOnSnapshotError = TRUE', 'CloseOnSnapshotError = FALSE')
        open(os.path.join(wd, 'x.cfg'), 'w').write(cfg)
        rc, out = vlib.tlc_run(wd, 'Offline.tla', 'x.cfg', workers=4, timeout=300)
        hit = 'Invariant O_HandlesReleased is violated' in out
        log('selftest: Offline with CloseOnSnapshotError=FALSE -> %s' % ('counterexample to O_HandlesReleased' if hit else 'NO counterexample'))
        ok &= hit
        # (1b) DirFS without truncate / without sync
        for const, want in (('Truncate = TRUE', 'ExactOnSuccess'), ('SyncOnPersist = TRUE', 'SyncedOnSuccess')):
            wd = os.path.join(sd, 'mc-' + want)
            os.makedirs(wd)
            shutil.copy(os.path.join(SPEC, 'DirFS.tla'), wd)
            cfg = open(os.path.join(SPEC, 'MC_dirfs.cfg')).read().replace(const, const.replace('TRUE', 'FALSE'))
            open(os.path.join(wd, 'x.cfg'), 'w').write(cfg)
            rc, out = vlib.tlc_run(wd, 'DirFS.tla', 'x.cfg', workers=4, timeout=300)
            hit = ('Invariant %s is violated' % want) in out
            log('selftest: DirFS with %s -> %s' % (const.replace('TRUE', 'FALSE'), 'counterexample to ' + want if hit else 'NO counterexample'))
            ok &= hit
        # (2) trace binding
        binp = vlib.build_harness(sd)
        out, logs = vlib.drive(binp, sd, 'core', 12, 7, shards=1)
        tf = sorted(glob.glob(os.path.join(out, 'trace-keep*-s0.ndjson')))[0]
        keep = int(re.search(r'keep(\d+)', tf).group(1))
        base = vlib.validate_trace(sd, tf, keep, 'st0')
        good = base['ok'] and not base['viols']
        log('selftest: recorded trace (%d events) accepted: %s' % (base['events'], good))
        ok &= good
        lines = open(tf).read().splitlines()

        def variant(name, edit, expect):
            new = edit([json.loads(l) for l in lines])
            p = os.path.join(sd, name + '.ndjson')
            open(p, 'w').write('\n'.join(json.dumps(e) for e in new) + '\n')
            r = vlib.validate_trace(sd, p, keep, name)
            got = {v[0] for v in r['viols']}
            hit = any(any(g.startswith(x) for x in expect) for g in got)
            log('selftest: %s -> clauses %s (%s)' % (name, sorted(got)[:6], 'rejected as expected' if hit else 'NOT rejected'))
            return hit

        def drop_doc(evs):
            for e in evs:
                if e['ev'] == 'IntroBatch' and e['ents'] and e['ents'][-1]['docs']:
                    e['ents'][-1]['docs'] = e['ents'][-1]['docs'][1:]
                    break
            return evs

        def drop_snapshot_persist(evs):
            for i, e in enumerate(evs):
                if e['ev'] == 'PersistEnd' and e['kind'] == '.snp' and e['err'] == '':
                    return evs[:i] + evs[i + 1:]
            return evs

        def drop_handle_close(evs):
            for i, e in enumerate(evs):
                if e['ev'] == 'HandleClose' and e['kind'] == '.seg':
                    return evs[:i] + evs[i + 1:]
            return evs

        def reorder_return(evs):
            # a Return logged before the introduction of its batch
            for i, e in enumerate(evs):
                if e['ev'] == 'Return' and e['err'] == '':
                    for j in range(i - 1, -1, -1):
                        if evs[j]['ev'] == 'IntroBatch' and evs[j]['uid'] == e['uid']:
                            return evs[:j] + [e] + evs[j:i] + evs[i + 1:]
            return evs
        ok &= variant('corrupt-root', drop_doc, ['C01_', 'STRICT_'])
        ok &= variant('drop-snapshot-persist', drop_snapshot_persist, ['C02_', 'C03_', 'C11_'])
        ok &= variant('drop-handle-close', drop_handle_close, ['C11_handle_leaked'])
        ok &= variant('return-before-introduction', reorder_return, ['C05_'])
        log('selftest: %s' % ('PASSED' if ok else 'FAILED'))
        return 0 if ok else 1
    finally:
        shutil.rmtree(sd, ignore_errors=True)


def replay(path):
    """Re-validates the stored trace with TLC and re-executes the stored schedule on the current tree."""
    meta = json.load(open(os.path.join(path, 'meta.json')))
    sd = vlib.scratch_dir('replay')
    kind = meta.get('kind')
    if kind in ('probe', 'c13', 'c19'):
        # the stored lines (input and real result) are judged again by the specification
        try:
            module, cfg, extra = {'c13': ('DirFSTrace.tla', 'DirFSTrace.cfg', []), 'c19': ('MergePlanTrace.tla', 'MergePlanTrace.cfg', ['MergePlan.tla'])}.get(
                kind, (meta.get('module'), meta.get('cfg'), meta.get('extra', [])))
            res = vextra.run_trace_spec(sd, 'replay', module, cfg, os.path.join(path, 'trace.ndjson'), extra_modules=tuple(extra))
            log('stored %s lines: %d, clauses failing: %s' % (kind, res['events'], sorted(set(v[0] for v in res['viols']))))
            log('to re-execute on the current tree run: bin/vcheck %s quick' % meta.get('property', '<id>'))
            return 1 if res['viols'] else 0
        finally:
            shutil.rmtree(sd, ignore_errors=True)
    try:
        tf = os.path.join(path, 'trace.ndjson')
        rc = 0
        if os.path.exists(tf):
            keep = 1
            first = json.loads(open(tf).readline())
            keep = first.get('keep', 1)
            res = vlib.validate_trace(sd, tf, keep, 'replay')
            log('stored trace: %d events, clauses failing: %s' % (res['events'], sorted(set(v[0] for v in res['viols']))))
            if res['viols']:
                rc = 1
        run = meta.get('run') or {}
        if run.get('scenario'):
            binp = vlib.build_harness(sd)
            open(os.path.join(sd, 'replay.json'), 'w').write(json.dumps(run))
            out = os.path.join(sd, 'out-replay')
            os.makedirs(out)
            prc, o = vlib.run_driver(binp, out, 'replay', 1, 0, 0, 600, extra_env={'VERIF_REPLAY': os.path.join(sd, 'replay.json')})
            if prc != 0:
                log('re-execution: driver failed\n' + o[-3000:])
                return 1
            for res in vlib.validate_all(sd, out):
                log('re-executed on the current tree: %d events, clauses failing: %s' % (res['events'], sorted(set(v[0] for v in res['viols']))))
                if res['viols']:
                    rc = 1
        return rc
    finally:
        shutil.rmtree(sd, ignore_errors=True)
