#!/bin/bash
# usage: confirm_mutant.sh <dir with patch.diff demo_test.go> -- confirms in a scratch worktree:
# applies, builds, suite passes with the change, demo fails with it and passes without
D=$1
WT=/tmp/confirm-wt-$$
export GOFLAGS=-mod=mod GOPROXY=off GOSUMDB=off
git -C /repo worktree add -q --detach $WT HEAD || exit 9
trap 'git -C /repo worktree remove --force $WT' EXIT
cd $WT
pkg=$(grep -m1 '^package ' $D/demo_test.go | awk '{print $2}')
case $pkg in bluge) dst=.;; index) dst=index;; *) dst=$(grep -rl "^package $pkg\$" --include=*.go . | head -1 | xargs dirname);; esac
git apply $D/patch.diff || { echo "RESULT $D apply=FAIL"; exit 1; }
go build ./... || { echo "RESULT $D build=FAIL"; exit 1; }
suiteout=$(go test -mod=mod -vet=off -count=1 ./... 2>&1 | grep "^FAIL\|^--- FAIL")
suite=$(echo -n "$suiteout" | grep -c .)
failed=$(echo "$suiteout" | grep -o "^--- FAIL: [A-Za-z0-9_/]*" | sed 's/--- FAIL: //' | sort -u | tr '\n' ',')
cp $D/demo_test.go $dst/zz_demo_test.go
go test -mod=mod -vet=off -count=1 -run 'C[0-9][0-9]|Demo|demo' ./$dst/ > /tmp/confirm-$$.log 2>&1; with=$?
git checkout -q -- . 
go test -mod=mod -vet=off -count=1 -run 'C[0-9][0-9]|Demo|demo' ./$dst/ > /tmp/confirm-$$.log2 2>&1; without=$?
rm -f $dst/zz_demo_test.go /tmp/confirm-$$.log /tmp/confirm-$$.log2
echo "RESULT $D suite_failures_with_change=$suite failed_tests=[$failed] demo_with_change_rc=$with demo_without_rc=$without"
