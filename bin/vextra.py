"""Checks for the sequential sub-systems: the directory protocol (C13), the merge
planner (C19), the query engine (C07), the collector (C09), aggregations (C16)
and layout independence (C08).  Same contract as the core checks."""
import glob, json, os, re, shutil, subprocess, sys, time
import vlib
from vlib import log, Inconclusive, VERIF, SPEC, HARNESS, GOENV, OUTROOT

SEQ_NOTE = ('Trusted: TLC; the Go harness that builds real objects from TLC-generated vectors / records real calls; strace (C13). '
            'Bounded: small-scope vectors (sizes in the evidence rule), not all inputs.')


def go_build(sd, pkg, name):
    hd = vlib.harness_dir(sd)
    binp = os.path.join(sd, name)
    p = subprocess.run(['go1.26.8', 'build', '-tags', 'verif', '-o', binp, pkg], cwd=hd, env=GOENV,
                       stdout=subprocess.PIPE, stderr=subprocess.STDOUT, text=True)
    if p.returncode != 0:
        raise Inconclusive('build of %s failed:\n%s' % (pkg, p.stdout[-3000:]))
    return binp


def go_test_build(sd, pkg, name):
    hd = vlib.harness_dir(sd)
    binp = os.path.join(sd, name)
    p = subprocess.run(['go1.26.8', 'test', '-tags', 'verif', '-c', '-o', binp, pkg], cwd=hd, env=GOENV,
                       stdout=subprocess.PIPE, stderr=subprocess.STDOUT, text=True)
    if p.returncode != 0:
        raise Inconclusive('build of %s failed:\n%s' % (pkg, p.stdout[-3000:]))
    return binp


def run_trace_spec(sd, tag, module, cfg, tracefile, extra_modules=(), timeout=900):
    wd = os.path.join(sd, 'tr-' + tag)
    os.makedirs(wd, exist_ok=True)
    if 'Search.tla' in extra_modules:
        extra_modules = tuple(extra_modules) + ('GeoTable.tla',)
    for f in (module,) + tuple(extra_modules):
        shutil.copy(os.path.join(SPEC, f), wd)
    shutil.copy(os.path.join(SPEC, cfg), wd)
    shutil.copy(tracefile, os.path.join(wd, 'trace.ndjson'))
    rc, out = vlib.tlc_run(wd, module, cfg, workers=1, timeout=timeout, small=True)
    viols = [(m.group(1), int(m.group(2)), int(m.group(3))) for m in vlib.VIOL_RE.finditer(out)]
    done = re.search(r'<<"TRACE-DONE", (\d+)>>', out)
    nlines = sum(1 for _ in open(tracefile))
    ok = done is not None and int(done.group(1)) == nlines and 'No error has been found' in out
    st, tr = vlib.tlc_stats(out)
    if not ok:
        open(os.path.join(OUTROOT, 'evidence', 'last-trace-failure-%s.txt' % tag), 'w').write(out[-100000:])
    return dict(ok=ok, viols=viols, events=nlines, states=st, transitions=tr, tail=out[-2500:])


def save_simple_replay(prop, seed, files, meta):
    d = os.path.join(OUTROOT, 'replays', prop, '%d-%s' % (int(time.time()), seed))
    os.makedirs(d, exist_ok=True)
    for name, path in files.items():
        if os.path.exists(path):
            shutil.copy(path, os.path.join(d, name))
    json.dump(meta, open(os.path.join(d, 'meta.json'), 'w'), indent=1, default=str)
    return d


# --------------------------------------------------------------------------
# C13: the file-system directory's Persist

def check_c13(prop, tier, seed, sd, t0):
    mc = vlib.model_check(sd, 'dirfs', 'DirFS.tla', 'MC_dirfs.cfg' if tier == 'quick' else 'MC_dirfs_t.cfg', 600)
    log('model checked DirFS: %d states' % mc['states'])
    probe = go_build(sd, './cmd/persistprobe', 'persistprobe')
    tdir = os.path.join(sd, 'pp')
    st = os.path.join(sd, 'pp.strace')
    p = subprocess.run(['timeout', '900', 'strace', '-f', '-e',
                        'trace=openat,write,pwrite64,ftruncate,fsync,fdatasync,close,unlink,unlinkat,flock,rename,renameat,renameat2',
                        '-o', st, probe, '-dir', tdir, '-tier', tier, '-seed', str(seed)],
                       stdout=subprocess.PIPE, stderr=subprocess.STDOUT, text=True)
    if p.returncode != 0:
        tail = p.stdout[-3000:]
        if 'github.com/blugelabs/bluge' in tail and 'panic' in tail:
            d = save_simple_replay(prop, seed, {'strace.txt': st}, dict(note='probe died inside Persist', log=tail))
            log('VIOLATION property=%s replay=%s' % (prop, d))
            return 1
        raise Inconclusive('persistprobe/strace failed: ' + tail)
    sys.path.insert(0, os.path.join(VERIF, 'bin'))
    import strace2trace
    tf = os.path.join(sd, 'pp.ndjson')
    events = strace2trace.convert(st, tdir, tf)
    calls = sum(1 for e in events if e['ev'] == 'call')
    syscalls = sum(1 for e in events if e['ev'] not in ('call', 'ret', 'after'))
    if calls < 100 or syscalls < calls:
        raise Inconclusive('strace conversion produced too little (%d calls, %d syscalls)' % (calls, syscalls))
    res = run_trace_spec(sd, 'dirfs', 'DirFSTrace.tla', 'DirFSTrace.cfg', tf)
    if not res['ok']:
        raise Inconclusive('DirFSTrace did not consume the trace:\n' + res['tail'])
    viols = [v for v in res['viols'] if v[0].startswith('C13_')]
    divs = [v for v in res['viols'] if v[0].startswith('DIV_')]
    rc = 0
    if viols:
        c, line, call = viols[0]
        case = [e for e in events if e['ev'] == 'call'][call - 1] if call >= 1 else {}
        d = save_simple_replay(prop, seed, {'trace.ndjson': tf, 'strace.txt': st},
                               dict(property=prop, clause=c, line=line, call=call, case=case, kind='c13'))
        log('VIOLATION property=%s replay=%s' % (prop, d))
        log('  %s at event %d (Persist call %d: %s)' % (c, line, call, case))
        rc = 1
    elif divs:
        raise Inconclusive('the file-system model and the real file system disagree (%s): model or converter is wrong' % divs[:3])
    cases = [e for e in events if e['ev'] == 'call']
    distinct = len({(e['size'], e['pre'], e['kind'], e['fail'], e['held']) for e in cases})
    held_cases = sum(1 for e in cases if e['held'])
    if held_cases < 10:
        raise Inconclusive('the probe produced no held-file cases')
    cov = dict(states=mc['states'], transitions=mc['transitions'], traces_validated_against_impl=calls,
               samples=events[:14], evaluations=calls, distinct_nontrivial=distinct, syscall_events=syscalls, held_file_cases=held_cases,
               rule='one real FileSystemDirectory.Persist call per (item kind x size x pre-existing file state x failure mode); sizes 0,1,buffer-1,buffer,'
                    'buffer+1,3*buffer (+ every size <= 64 and powers of two +-1 in the thorough tier) x {absent, shorter, equal, longer, held by an open Load (the Persist is refused and must leave the file as it was)} x {no failure, '
                    'error after 0 / half / all bytes, cancellation at 0 / half}; the strace record of each call is replayed by TLC through DirFS '
                    'system-call semantics and the C13 clauses are evaluated when Persist returns; distinct = distinct (size, pre, kind, failure) tuples',
               exhaustive=False, model_config=mc)
    vlib.write_evidence(prop, tier, seed, 'model_checking', cov,
                        ['strace reports the system calls faithfully', 'the kernel honours fsync; directory-entry durability is outside the property',
                         'the probe item writer writes the item bytes sequentially (checked by reading the file back: clause DIV_*)'],
                        time.time() - t0, len(viols))
    log('%s %s: %d model states, %d Persist calls (%d syscalls) validated, %d violations' % (prop, tier, mc['states'], calls, syscalls, len(viols)))
    return rc


# --------------------------------------------------------------------------
# C19: the merge planner

def check_c19(prop, tier, seed, sd, t0):
    mc = [('mergeplan', 'MergePlan.tla', 'MC_mergeplan_q.cfg' if tier == 'quick' else 'MC_mergeplan.cfg', 1500)]
    if tier == 'thorough':
        mc.append(('mergeplan-live', 'MergePlan.tla', 'MC_mergeplan_live.cfg', 1800))
    return probe_check(prop, tier, seed, sd, t0, './cmd/planprobe', mc, 'MergePlanTrace.tla', 'MergePlanTrace.cfg', ('MergePlan.tla',), 'C19_',
                       'real mergeplan.Plan calls: (a) lists of 2..4 segments over the boundary size set {0,1,floor,floor+1,max/2-1,max/2,max/2+1,max-1,max,max+5} x deleted fraction '
                       '{none, half, all} for three option sets (quick: every 7th list; thorough: all lists of <= 4 and every 11th of 5), (b) random lists of 2..1700 segments with duplicate '
                       'sizes around the default options, (c) arrive/delete/plan/execute histories and run-to-convergence loops in which the real planner plans and the probe executes on sizes '
                       'only; every call is checked by TLC against PlanOK (membership, disjointness, size bound, eligibility, width, budget post-condition with the integer Budget, determinism, '
                       'termination watchdog) and every history against convergence within |segments| rounds and rest-within-budget; no-op tasks are counted as notes; distinct = distinct logged calls',
                       ['the integer transcription of CalcBudget is exact for integer options and sizes < 2^31 (compared with the Go value on every call: DIV_budget_transcription)',
                        'the float scoring only chooses among plans; it is not modelled'],
                       unit='plan"', boundaries=('"ev":"plan"', '"ev":"hreset"'), note_prefix='NOTE_')


# --------------------------------------------------------------------------
# probe-based checks: a Go probe runs the real engine on generated inputs and logs
# (input, real result); TLC evaluates the specification's value for every line

def probe_check(prop, tier, seed, sd, t0, probe_pkg, mc, trace_module, trace_cfg, extra_modules, prefix, rule, assumptions, unit='ev":"q"', extra_cov=None, selfcontained=False, boundaries=('"ev":"corpus"', '"ev":"reset"'), note_prefix=None, chunk=4000):
    mcs = []
    for name, module, cfg, timeout in mc:
        r = vlib.model_check(sd, name, module, cfg, timeout)
        log('model checked %s: %d states' % (cfg, r['states']))
        mcs.append(r)
    probe = go_build(sd, probe_pkg, 'probe')
    tf = os.path.join(sd, 'probe.ndjson')
    p = subprocess.run(['timeout', '3000', probe, '-out', tf, '-tier', tier, '-seed', str(seed)], stdout=subprocess.PIPE, stderr=subprocess.STDOUT, text=True)
    if p.returncode != 0:
        out = p.stdout
        tail = out[:3000] + '\n...\n' + out[-3000:]
        if 'github.com/blugelabs/bluge' in out and ('panic' in out or 'fatal error' in out) and 'harness:' not in out:
            d = save_simple_replay(prop, seed, {'trace.ndjson': tf}, dict(property=prop, note='the probe died inside the code under test', log=tail))
            log('VIOLATION property=%s replay=%s' % (prop, d))
            log('  the real engine panicked on a generated input')
            vlib.write_evidence(prop, tier, seed, 'model_checking', dict(states=max(1, sum(m['states'] for m in mcs)), transitions=max(1, sum(m['transitions'] for m in mcs)),
                                traces_validated_against_impl=0, samples=[dict(note='probe died', log=tail[-800:])], evaluations=1, distinct_nontrivial=2), assumptions, time.time() - t0, 1)
            return 1
        raise Inconclusive('probe %s failed: %s' % (probe_pkg, tail))
    # split into chunks at corpus boundaries and validate in parallel
    lines = open(tf).read().splitlines()
    chunks, cur = [], []
    for l in lines:
        if (selfcontained or any(b in l for b in boundaries)) and len(cur) >= chunk:
            chunks.append(cur)
            cur = []
        cur.append(l)
    if cur:
        chunks.append(cur)
    import concurrent.futures as cf
    results = []

    def one(i):
        cf_ = os.path.join(sd, 'chunk-%d.ndjson' % i)
        open(cf_, 'w').write('\n'.join(chunks[i]) + '\n')
        return run_trace_spec(sd, '%s-%d' % (prop, i), trace_module, trace_cfg, cf_, extra_modules=extra_modules, timeout=2400)
    with cf.ThreadPoolExecutor(max_workers=12) as ex:
        results = list(ex.map(one, range(len(chunks))))
    viols, offset = [], 0
    states = trans = 0
    for i, res in enumerate(results):
        if not res['ok']:
            raise Inconclusive('%s did not consume chunk %d:\n%s' % (trace_module, i, res['tail']))
        states += res['states']
        trans += res['transitions']
        for c, line, k in res['viols']:
            viols.append((c, offset + line, k))
        offset += len(chunks[i])
    mine = [v for v in viols if v[0].startswith(prefix)]
    divs = [v for v in viols if v[0].startswith('DIV_')]
    known, real = [], []
    for v in mine:
        k = None
        for kf in vlib.known_findings():
            if kf.get('status') == 'known' and kf['property'] == prop and (kf['clause'] == v[0] or (isinstance(kf['clause'], list) and v[0] in kf['clause'])):
                # a known finding is identified by its clause(s) AND the probe scenario of the line
                ln = lines[v[1] - 1]
                scns = kf.get('scenario')
                scns = scns if isinstance(scns, list) else [scns]
                if any(x and ('"scn":"%s"' % x) in ln for x in scns):
                    k = kf
        (known if k else real).append((v, k))
    rc = 0
    seen = set()
    for v, k in known:
        if k['key'] not in seen:
            seen.add(k['key'])
            log('KNOWN-FINDING: property=%s %s' % (prop, k['what']))
    if real:
        (c, line, k), _ = real[0]
        j = line - 1
        while not selfcontained and j > 0 and not any(b in lines[j] for b in boundaries):
            j -= 1
        d = os.path.join(OUTROOT, 'replays', prop, '%d-%s' % (int(time.time()), seed))
        os.makedirs(d, exist_ok=True)
        open(os.path.join(d, 'trace.ndjson'), 'w').write((lines[j] + '\n' if j != line - 1 else '') + lines[line - 1] + '\n')
        json.dump(dict(property=prop, clause=c, line=line, kind='probe', module=trace_module, cfg=trace_cfg, extra=list(extra_modules)), open(os.path.join(d, 'meta.json'), 'w'), indent=1)
        log('VIOLATION property=%s replay=%s' % (prop, d))
        log('  %s at line %d: %s' % (c, line, lines[line - 1][:700]))
        rc = 1
    elif divs:
        raise Inconclusive('specification and harness disagree about the input binding: %s' % divs[:3])
    n = sum(1 for l in lines if unit in l)
    distinct = len({l for l in lines if unit in l})
    notes = [v for v in viols if note_prefix and v[0].startswith(note_prefix)]
    cov = dict(states=states + sum(m['states'] for m in mcs), transitions=trans + sum(m['transitions'] for m in mcs), traces_validated_against_impl=n, notes=len(notes),
               samples=[json.loads(lines[0])] + [json.loads(l) for l in lines if unit in l][:3], evaluations=n, distinct_nontrivial=distinct,
               rule=rule, exhaustive=False, model_configs=mcs, lines=len(lines))
    if extra_cov:
        cov.update(extra_cov(lines))
    vlib.write_evidence(prop, tier, seed, 'model_checking', cov, assumptions, time.time() - t0, len(real))
    log('%s %s: %d real calls validated by TLC (%d lines, %d chunks), %d violations, %d known' % (prop, tier, n, len(lines), len(chunks), len(real), len(known)))
    return rc


def offline_subcheck(prop, tier, seed, sd, prefixes):
    """The offline writer: Offline.tla model-checked, then every directory operation of real OfflineWriter
    builds (with and without an injected failure) validated by OfflineTrace.tla.  Returns (rc, coverage);
    prints VIOLATION / KNOWN-FINDING lines for clauses with one of the given prefixes."""
    mcs = []
    for name, cfg in (('offline', 'MC_offline.cfg'), ('offline_b', 'MC_offline_b.cfg')) + ((('offline_t', 'MC_offline_t.cfg'),) if tier == 'thorough' else ()):
        mcs.append(vlib.model_check(sd, name, 'Offline.tla', cfg, 900))
    probe = go_build(sd, './cmd/offlineprobe', 'offlineprobe')
    tf = os.path.join(sd, 'offline.ndjson')
    p = subprocess.run(['timeout', '1500', probe, '-out', tf, '-tier', tier, '-seed', str(seed)], stdout=subprocess.PIPE, stderr=subprocess.STDOUT, text=True)
    if p.returncode != 0:
        out = p.stdout
        tail = out[:2000] + '\n...\n' + out[-3000:]
        if 'github.com/blugelabs/bluge' in out and ('panic' in out or 'fatal error' in out) and 'harness:' not in out:
            d = save_simple_replay(prop, seed, {'trace.ndjson': tf}, dict(property=prop, note='the offline writer panicked', log=tail))
            log('VIOLATION property=%s replay=%s' % (prop, d))
            log('  the real offline writer panicked')
            return 1, dict(note='offline probe died', log=tail[-600:])
        raise Inconclusive('offlineprobe failed: %s' % tail)
    lines = open(tf).read().splitlines()
    chunks, cur = [], []
    for l in lines:
        if '"ev":"Reset"' in l and len(cur) >= 3000:
            chunks.append(cur)
            cur = []
        cur.append(l)
    if cur:
        chunks.append(cur)
    import concurrent.futures as cf

    def one(i):
        cf_ = os.path.join(sd, 'offchunk-%d.ndjson' % i)
        open(cf_, 'w').write('\n'.join(chunks[i]) + '\n')
        return run_trace_spec(sd, 'offline-%d' % i, 'OfflineTrace.tla', 'OfflineTrace.cfg', cf_, extra_modules=('Offline.tla',), timeout=1800)
    with cf.ThreadPoolExecutor(max_workers=12) as ex:
        results = list(ex.map(one, range(len(chunks))))
    viols, offset, states, trans = [], 0, 0, 0
    for i, res in enumerate(results):
        if not res['ok']:
            raise Inconclusive('OfflineTrace did not consume chunk %d:\n%s' % (i, res['tail']))
        states += res['states']
        trans += res['transitions']
        viols += [(c, offset + line, k) for c, line, k in res['viols']]
        offset += len(chunks[i])
    divs = [v for v in viols if v[0].startswith('DIV_')]
    strict = [v for v in viols if v[0].startswith('STRICT_')]
    notes = [v for v in viols if v[0].startswith('NOTE_')]
    mine = [v for v in viols if any(v[0].startswith(x) for x in prefixes)]
    rc = 0
    real = []
    seen = set()
    for v in mine:
        k = None
        for kf in vlib.known_findings():
            if kf.get('status') == 'known' and kf['property'] == prop and kf['clause'] == v[0]:
                k = kf
        if k:
            if k['key'] not in seen:
                seen.add(k['key'])
                log('KNOWN-FINDING: property=%s %s' % (prop, k['what']))
        else:
            real.append(v)
    if real:
        c, line, run = real[0]
        j = line - 1
        while j > 0 and '"ev":"Reset"' not in lines[j]:
            j -= 1
        e = line
        while e < len(lines) and '"ev":"Reset"' not in lines[e]:
            e += 1
        d = os.path.join(OUTROOT, 'replays', prop, '%d-%s-offline' % (int(time.time()), seed))
        os.makedirs(d, exist_ok=True)
        open(os.path.join(d, 'trace.ndjson'), 'w').write('\n'.join(lines[j:e]) + '\n')
        json.dump(dict(property=prop, clause=c, line=line - j, kind='probe', module='OfflineTrace.tla', cfg='OfflineTrace.cfg', extra=['Offline.tla']), open(os.path.join(d, 'meta.json'), 'w'), indent=1)
        log('VIOLATION property=%s replay=%s' % (prop, d))
        log('  offline writer: %s in run %d (line %d): %s' % (c, run, line, lines[j][:300]))
        rc = 1
    elif divs:
        raise Inconclusive('Offline.tla and the probe disagree about the binding: %s' % divs[:3])
    runs = sum(1 for l in lines if '"ev":"Reset"' in l)
    cov = dict(model_configs=mcs, builds_validated=runs, builds_with_injected_failure=sum(1 for l in lines if '"ev":"Reset"' in l and '"fault":-1' not in l),
               directory_operations=sum(1 for l in lines if '"ev":"PersistEnd"' in l or '"ev":"LoadEnd"' in l or '"ev":"RemoveEnd"' in l),
               events=len(lines), trace_states=states, model_divergences=len(strict), notes=len(notes), violations=len(real),
               rule='OfflineWriter builds of n documents with batch size b over the logging directory wrapper, n in {0..31 (..200)}, b in {0,1,2,9,100,..}, both segment formats, plus builds with one '
                    'injected failure (before / partial / after) at a sampled directory operation; OfflineTrace.tla replays every Persist (content parsed back from the persisted bytes), Load, handle '
                    'close and Remove through Offline.tla: nothing lost at any step, merge rounds preserve content, the snapshot names existing files holding everything, an offline index is complete or '
                    'absent, handles released; STRICT clauses compare ids, document order, merge width and load order with the model step')
    log('offline writer: %d builds (%d with an injected failure), %d directory operations validated by TLC, %d violations, %d model divergences'
        % (runs, cov['builds_with_injected_failure'], cov['directory_operations'], len(real), len(strict)))
    return rc, cov


def search_subcheck(prop, tier, seed, sd, prefixes):
    """Many different real searches on ONE reader per corpus (cmd/searchprobe -rich), each executed twice
    (all matches, then top-N); SearchTrace.tla judges both against Search!Eval and against each other.
    Used by C04: a reader must give the same answer to the same search whatever ran on it before."""
    probe = go_build(sd, './cmd/searchprobe', 'searchprobe-sub')
    tf = os.path.join(sd, 'searchsub.ndjson')
    n = 150 if tier == 'quick' else 1500
    p = subprocess.run(['timeout', '1500', probe, '-out', tf, '-tier', tier, '-seed', str(seed), '-rich', str(n)], stdout=subprocess.PIPE, stderr=subprocess.STDOUT, text=True)
    if p.returncode != 0:
        out = p.stdout
        tail = out[:2000] + '\n...\n' + out[-3000:]
        if 'github.com/blugelabs/bluge' in out and ('panic' in out or 'fatal error' in out) and 'harness:' not in out:
            d = save_simple_replay(prop, seed, {'trace.ndjson': tf}, dict(property=prop, note='a search on an open reader panicked', log=tail))
            log('VIOLATION property=%s replay=%s' % (prop, d))
            log('  a search on an open reader panicked')
            return 1, dict(note='search probe died', log=tail[-600:], violations=1)
        raise Inconclusive('searchprobe failed: %s' % tail)
    lines = open(tf).read().splitlines()
    chunks, cur = [], []
    for l in lines:
        if '"ev":"corpus"' in l and len(cur) >= 1500:
            chunks.append(cur)
            cur = []
        cur.append(l)
    if cur:
        chunks.append(cur)
    import concurrent.futures as cf

    def one(i):
        cf_ = os.path.join(sd, 'sschunk-%d.ndjson' % i)
        open(cf_, 'w').write('\n'.join(chunks[i]) + '\n')
        return run_trace_spec(sd, 'searchsub-%d' % i, 'SearchTrace.tla', 'SearchTrace.cfg', cf_, extra_modules=('Search.tla',), timeout=1800)
    with cf.ThreadPoolExecutor(max_workers=12) as ex:
        results = list(ex.map(one, range(len(chunks))))
    viols, offset = [], 0
    for i, res in enumerate(results):
        if not res['ok']:
            raise Inconclusive('SearchTrace did not consume chunk %d:\n%s' % (i, res['tail']))
        viols += [(c, offset + line, k) for c, line, k in res['viols']]
        offset += len(chunks[i])
    mine = [v for v in viols if any(v[0].startswith(x) for x in prefixes)]
    rc = 0
    if mine:
        c, line, _ = mine[0]
        j = line - 1
        while j > 0 and '"ev":"corpus"' not in lines[j]:
            j -= 1
        d = os.path.join(OUTROOT, 'replays', prop, '%d-%s-search' % (int(time.time()), seed))
        os.makedirs(d, exist_ok=True)
        open(os.path.join(d, 'trace.ndjson'), 'w').write(lines[j] + '\n' + lines[line - 1] + '\n')
        json.dump(dict(property=prop, clause=c, line=2, kind='probe', module='SearchTrace.tla', cfg='SearchTrace.cfg', extra=['Search.tla']), open(os.path.join(d, 'meta.json'), 'w'), indent=1)
        log('VIOLATION property=%s replay=%s' % (prop, d))
        log('  %s at line %d: %s' % (c, line, lines[line - 1][:400]))
        rc = 1
    nq = sum(1 for l in lines if '"ev":"q"' in l)
    cov = dict(searches=nq, readers=sum(1 for l in lines if '"ev":"corpus"' in l), violations=len(mine),
               other_property_clauses=len([v for v in viols if v not in mine]),
               rule='per generated corpus ONE reader answers 40 different query trees, each twice (all matches, then top-N); a reader whose internal state (recycled iterators, '
                    'cached postings) leaks from one search into the next gives different or wrong answers')
    log('searches on held readers: %d searches on %d readers, %d violations' % (nq, cov['readers'], len(mine)))
    return rc, cov


def big_subcheck(prop, tier, seed, sd, prefixes):
    """The abstract index at a size where buffers, chunks and bitmap containers overflow (cmd/bigprobe):
    segments of thousands of documents, thousands of pending deletions, Close, reader and writer reopened;
    spec/BigIndexTrace.tla keeps the set of live ids and judges counts and sampled lookups."""
    probe = go_build(sd, './cmd/bigprobe', 'bigprobe')
    tf = os.path.join(sd, 'big.ndjson')
    p = subprocess.run(['timeout', '1500', probe, '-out', tf, '-tier', tier, '-seed', str(seed)], stdout=subprocess.PIPE, stderr=subprocess.STDOUT, text=True)
    if p.returncode != 0:
        out = p.stdout
        tail = out[:2000] + '\n...\n' + out[-3000:]
        if 'github.com/blugelabs/bluge' in out and ('panic' in out or 'fatal error' in out) and 'harness:' not in out:
            d = save_simple_replay(prop, seed, {'trace.ndjson': tf}, dict(property=prop, note='the index panicked on a large segment', log=tail))
            log('VIOLATION property=%s replay=%s' % (prop, d))
            log('  the real engine panicked on a large index')
            return 1, dict(note='big probe died', log=tail[-600:], violations=1)
        raise Inconclusive('bigprobe failed: %s' % tail)
    res = run_trace_spec(sd, 'big', 'BigIndexTrace.tla', 'BigIndexTrace.cfg', tf, timeout=1800)
    if not res['ok']:
        raise Inconclusive('BigIndexTrace did not consume its trace:\n%s' % res['tail'])
    lines = open(tf).read().splitlines()
    mine = [v for v in res['viols'] if any(v[0].startswith(x) for x in prefixes)]
    rc = 0
    if mine:
        c, line, run = mine[0]
        j = line - 1
        while j > 0 and '"ev":"bigreset"' not in lines[j]:
            j -= 1
        e = line
        while e < len(lines) and '"ev":"bigreset"' not in lines[e]:
            e += 1
        d = os.path.join(OUTROOT, 'replays', prop, '%d-%s-big' % (int(time.time()), seed))
        os.makedirs(d, exist_ok=True)
        open(os.path.join(d, 'trace.ndjson'), 'w').write('\n'.join(lines[j:e]) + '\n')
        json.dump(dict(property=prop, clause=c, line=line - j, kind='probe', module='BigIndexTrace.tla', cfg='BigIndexTrace.cfg', extra=[]), open(os.path.join(d, 'meta.json'), 'w'), indent=1)
        log('VIOLATION property=%s replay=%s' % (prop, d))
        log('  large index: %s in run %d: %s' % (c, run, lines[line - 1][:300]))
        rc = 1
    cov = dict(runs=sum(1 for l in lines if '"ev":"bigreset"' in l), sizes=sorted({json.loads(l)['n'] for l in lines if '"ev":"bigreset"' in l}),
               observations=sum(1 for l in lines if '"ev":"bigobs"' in l), violations=len(mine),
               rule='one segment of n documents, every other one deleted in one batch, every 5th..7th updated, a dense block deleted; the writer\'s reader, a reader opened '
                    'on the directory after Close and a reopened writer (one more batch) report count and 20 sampled lookups; BigIndexTrace keeps the set of live ids')
    log('large index: %d runs (n = %s), %d observations judged, %d violations' % (cov['runs'], cov['sizes'], cov['observations'], len(mine)))
    return rc, cov


def merge_sub_evidence(prop, key, cov, rc):
    """Adds the coverage of a sub-check to the evidence file written by the main check."""
    f = os.path.join(OUTROOT, 'evidence', prop + '.json')
    ev = json.load(open(f))
    ev['coverage'][key] = cov
    if rc:
        ev['violations'] = ev.get('violations', 0) + cov.get('violations', 1)
    json.dump(ev, open(f, 'w'), indent=1, default=str)


def check_c07(prop, tier, seed, sd, t0):
    return probe_check(prop, tier, seed, sd, t0, './cmd/searchprobe', [('searchmc', 'SearchMC.tla', 'SearchMC.cfg', 600)],
                       'SearchTrace.tla', 'SearchTrace.cfg', ('Search.tla',), 'C07_',
                       'real Reader.Search calls (AllMatches and TopN large enough for everything): (a) small scope -- random samples of the 2^15 assignments of 3 terms to 5 documents '
                       'in 2 segments (split point and one pending deletion varied) x boolean shapes of depth <= 2 over term/match-all/match-none leaves with min-should 0..3; (b) corpora of '
                       '3..12 documents in 1..4 segments with pending deletions, two text fields (positions), numeric, date and keyword fields, query trees to depth 3 and width 12 over '
                       'term, match and/or, (multi-)phrase with slop, prefix, wildcard, regexp, fuzzy (distance 0..2, prefix 0..2), term range, numeric range, date range, geo bounding box (points on whole '
                       'degrees, edges on half degrees, boxes crossing the date line), geo distance (7 centres incl. the date line and both polar regions, radii 87..21000 km that keep 2.4% clear of '
                       'every distance in the generated great-circle table spec/GeoTable.tla), all, none, bool; '
                       'TLC evaluates Search!Eval for every logged (corpus, query) and compares with the ids really returned; distinct = distinct logged (query, result) lines',
                       ['the corpus logged is the corpus indexed (sq.Build)', 'text is analysed by the standard analyzer into the logged tokens (lower-case letters only)',
                        'geo distance is decided only for radii at least 2.4% away from every centre-point distance (mean-sphere table); geo polygon queries (not in the property list) and float/boundary behaviour of numeric and geo encodings are not covered (C10 is not applicable)'],
                       extra_cov=lambda lines: dict(excluded_query_kinds=['geo polygon'], geo_distance_queries=sum(1 for l in lines if '"t":"geodist"' in l)))


def check_c09(prop, tier, seed, sd, t0):
    return probe_check(prop, tier, seed, sd, t0, './cmd/collprobe', [('collector', 'Collector.tla', 'MC_collector.cfg' if tier == 'quick' else 'MC_collector_t.cfg', 1500)],
                       'CollectorTrace.tla', 'CollectorTrace.cfg', ('CollectorCore.tla',), 'C09_',
                       'real TopN searches over generated corpora (1..35 documents in 1..4 segments, pending deletions, heavy ties: key domains of 2..4 values, missing values) x '
                       '3 queries x sort orders of 1..3 keys drawn from numeric, keyword, date and score, each ascending/descending and missing first/last x (n, from) from '
                       '{0,1,2,3,5,9,10,11,13,40} x {0,1,2,5,9,10,11,30} (both sides of the slice/heap switch at 10) x single pages after/before the key of a random match x '
                       'after- and before-chains with page sizes 1,2,3,4,10,11; TLC computes the abstract slice / page (CollectorCore) for every call; keys are integers '
                       '(numeric value, date seconds, dense rank of keyword / observed score); distinct = distinct logged calls',
                       ['the harness maps sort values to integers order-preservingly (dense ranks for keywords and observed scores)',
                        'hit number = position in the AllMatches result (index order)', 'multi-valued sort fields are not generated'],
                       unit='"ev":"', selfcontained=True)


def check_c16(prop, tier, seed, sd, t0):
    return probe_check(prop, tier, seed, sd, t0, './cmd/aggprobe', [], 'AggsTrace.tla', 'AggsTrace.cfg', ('Aggs.tla',), 'C16_',
                       'real searches with an aggregation tree (count, sum, min, max, avg, weighted avg, cardinality, quantiles; terms of size 1..4 with nested sum; numeric ranges incl. '
                       'an empty and a negative one with nested sum and max; date ranges) over generated corpora (1..14 documents, 1..3 segments, pending deletions; numeric field with 0..2 '
                       'values incl. negatives, weight field sometimes missing, keyword field single- or multi-valued or missing, date field) x 3 queries x 8 (12) request settings: AllMatches, '
                       'and TopN with n in {0,1,2,3,10,11,50}, from in {0,1,3,12}, four sort orders, and After/Before paging keys; TLC evaluates Aggs.tla on the matched documents (obtained by a '
                       'separate AllMatches run) for every line, so every setting is compared with the same setting-independent value; every other request is a GENERATED aggregation tree (2..6 top-level aggregations of all kinds, value sources plain or wrapped by FilterNumeric / FilterText / FilterDate, bucket aggregations nested to depth 2 with 0..3 sub-aggregations) judged by the recursive evaluator Aggs!Chk; one corpus of 1 500+ documents in a single segment per run; distinct = distinct logged lines',
                       ['matched documents are taken from an AllMatches run of the same query (C07 decides that set)', 'floats are compared in thousandths (avg / weighted avg / quantiles)',
                        'the cardinality sketch is exact at these sizes (<= 5 distinct values)', 'bucket aggregations consume a document once per value in the bucket (transcribed from range.go/terms.go)'],
                       unit='"ev":"agg', selfcontained=True, chunk=700 if tier == 'quick' else 6000)


def check_c08(prop, tier, seed, sd, t0):
    rc = _check_c08_layout(prop, tier, seed, sd, t0)
    rc2, cov = offline_subcheck(prop, tier, seed, sd, ('C08_',))
    merge_sub_evidence(prop, 'offline_writer', cov, rc2)
    return 1 if (rc or rc2) else 0


def _check_c08_layout(prop, tier, seed, sd, t0):
    return probe_check(prop, tier, seed, sd, t0, './cmd/layoutprobe', [], 'LayoutTrace.tla', 'LayoutTrace.cfg', ('Layout.tla', 'Search.tla'), 'C08_',
                       'generated logical corpora (0, 1, 3, 7, 12, 15, 25 or 40 documents; the empty corpus always included) each built by 16 recipes: all at once, one document per batch, random '
                       'partition in memory, ice v2, optimisations disabled, close + OpenReader, Backup + OpenReader, scoring off, OfflineWriter with batch sizes 1 / 3 / 100 (more than 10 batches => '
                       'merge rounds), forced merges (with and without scoring), extra documents written and deleted again (pending deletions), corpus partitioned over 2 and 3 indexes + MultiSearch; '
                       'each build answers 10 (16) queries (match-all, conjunction, disjunction, random trees); per answer TLC checks match set = Search!Eval(abstract corpus), the order under the '
                       'total field sort (n1, _id), count and sum aggregations, stored fields, and bit-equality of scores across the builds for which the property promises it; merged builds are '
                       'compared too and reported under the listed known finding; distinct = distinct logged answers',
                       ['every answer is compared with a function of the abstract corpus, so pairwise agreement of recipes follows', 'forced merges are given 30 ms; whatever layout results is legal',
                        'scores are compared as float64 bit patterns'],
                       unit='"ev":"ans"')


CHECKS = {'C13': check_c13, 'C19': check_c19, 'C07': check_c07, 'C09': check_c09, 'C16': check_c16, 'C08': check_c08}

MANIFEST_ENTRIES = {
    'C08': ('Layout.tla: every build recipe reaches the same abstract corpus, and each answer (match set via Search!Eval, order under a total field sort, count and sum aggregations) is defined as a '
            'function of the abstract corpus alone; scores are an uninterpreted function fixed by the first build for which the property promises equality and compared bit for bit with every later '
            'one. Code: 16 build recipes per generated corpus incl. the empty one (batch partitioning, in-memory, ice v1/v2, optimisations off, scoring off, reopen, Backup + OpenReader, OfflineWriter '
            'with > 10 batches, forced merges, pending deletions, partition over k indexes + MultiSearch) answer generated queries; LayoutTrace checks every answer. Score differences of builds with '
            'merged segments are the listed known finding. The offline writer additionally has its own model (Offline.tla: nothing lost at any step, an offline index is absent or complete, exactly the snapshot\'s files remain) and every directory operation of real offline builds, with and without an injected failure, is validated against it (OfflineTrace.tla).', '6 C08',
            'TLA+ specification of layout-independent answers (Layout.tla over Search.tla) evaluated by TLC on the answers of every real build recipe (LayoutTrace)', SEQ_NOTE, 'model_checking'),
    'C16': ('Aggs.tla defines every aggregation as direct evaluation over the matched documents (count, sum, min, max, (sum, n) for averages, (sum v*w, sum w) for weighted averages, '
            'per-value bucket consumption for terms / numeric / date ranges with nested metrics, terms selection = the largest buckets, remainder for single-valued fields, exact distinct count, '
            'quantiles within [min, max] and monotone). Code: real searches with the whole aggregation tree under many (n, from, sort, after/before) settings incl. n = 0 and the AllMatches '
            'collector; AggsTrace evaluates the specification on the matched documents for every logged run, which also decides independence of the settings.', '6 C16',
            'TLA+ specification of aggregation meaning (Aggs.tla) evaluated by TLC on every logged real search (AggsTrace)', SEQ_NOTE, 'model_checking'),
    'C09': ('CollectorCore.tla defines the complete ranking (sort keys, descending, missing first/last, ties by index order), the slice [from, from+n), and the pages after/before a key '
            '(search-before = collect under the reversed order, then reverse); Collector.tla transcribes collectSingle/finalizeResults (bounded store, lowest-match-outside shortcut, '
            'search-after pseudo match) and TLC checks that the machine computes the abstract meaning for all hit lists within bounds. Code: real TopN searches with custom sort orders, '
            'offsets, After/Before pages and chains are logged with the complete match list and judged by TLC with the same abstract operators (CollectorTrace).', '6 C09',
            'TLA+ specification of ranking/slicing (CollectorCore) + TLC refinement check of the transcribed collector (Collector) + TLC evaluation of every logged real TopN search (CollectorTrace)',
            SEQ_NOTE, 'model_checking'),
    'C07': ('Search.tla gives the documented meaning of every covered query kind as a set of live documents (term, match and/or, phrase and multi-phrase with the slop path rule of '
            'search_phrase.go, prefix, wildcard, regexp subset, fuzzy = edit distance with transpositions + required prefix, term/numeric/date ranges with open ends, match-all/none, '
            'geo bounding box incl. date-line crossing, boolean nesting with min-should); TLC checks boolean identities of the oracle on all small corpora (SearchMC). Code: the probe indexes generated corpora for real in the '
            'stated segment layout with pending deletions and runs generated query trees through Reader.Search with two collectors; SearchTrace evaluates Eval for every logged call '
            'and reports missed / extra / deleted / duplicated documents. Geo distance and polygon queries are excluded.', '6 C07',
            'TLA+ oracle (Search.tla) evaluated by TLC on every logged real Reader.Search call (SearchTrace) + TLC check of oracle identities', SEQ_NOTE, 'model_checking'),
    'C19': ('TLC: MergePlan.tla -- the contract PlanOK of one Plan call plus the arrive/delete/plan/execute dynamics quantified over EVERY planner that satisfies '
            'the contract and makes progress: at rest the mergeable population is within the (logarithmic) budget, every plan decreases a well-founded measure, '
            'convergence (liveness, thorough tier). Code: the real mergeplan.Plan is called on exhaustive small and random large segment lists and along simulated '
            'histories; MergePlanTrace checks each logged call against PlanOK (with an exact integer transcription of CalcBudget, itself compared with the Go value), '
            'determinism, termination (watchdog), and each history for convergence within |segments| rounds and rest-within-budget.', '6 C19',
            'TLA+ contract + dynamics specification (MergePlan) model-checked with TLC + validation of logged calls of the real planner (MergePlanTrace)',
            SEQ_NOTE, 'model_checking'),
    'C13': ('TLC: DirFS.tla, the Persist protocol (open-create, lock, truncate, writes, fsync, close; cleanup on error) over a file system with a '
            'volatile cache, all sizes x pre-existing lengths x failure points x power loss at every step; invariants ExactOnSuccess, SyncedOnSuccess, '
            'DurableAfterSuccess, NothingLeftOnFailure (the same module with Truncate=FALSE or SyncOnPersist=FALSE yields counterexamples). Code: a '
            'probe calls the real FileSystemDirectory.Persist for both item kinds under strace; DirFSTrace replays the recorded system calls through '
            'the specification\'s file-system semantics and evaluates the clauses when Persist returns; the file read back afterwards must agree '
            'with the model (binding).', '6 C13',
            'TLA+ protocol specification (DirFS) model-checked with TLC + validation of strace-recorded system calls of the real Persist (DirFSTrace)',
            SEQ_NOTE, 'model_checking'),
}
