#!/bin/bash
# runs every seeded change against the check of its property (quick tier); prints one line each
cd /verif
for d in seeded/*/; do
  id=$(basename $d); prop=${id%-*}
  out=$(bin/mutcheck.sh /verif/$d/patch.diff $prop quick 2>&1); rc=$?
  clause=$(echo "$out" | grep -o "clause [A-Za-z0-9_]* failed\|C[0-9][0-9]_[A-Za-z0-9_]* at\|died inside\|panicked" | head -1)
  echo "$id rc=$rc $clause"
done
