#!/bin/bash
# offline setup: parse all specs, pre-build the harness
set -e
cd "$(dirname "$0")/.."
exec python3 bin/vcheck setup
