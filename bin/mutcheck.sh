#!/bin/bash
# usage: mutcheck.sh <patch.diff> <PROP> [tier]  -- applies the patch to /repo, runs the check, reverts
P=$1; PROP=$2; TIER=${3:-quick}
cd /repo || exit 9
if [ -n "$(git status --porcelain)" ]; then echo "repo dirty"; exit 9; fi
git apply "$P" || { echo "patch does not apply"; exit 9; }
cd /verif
out=$(VERIF_SEED=${VERIF_SEED:-1} bin/vcheck $PROP $TIER 2>&1); rc=$?
git -C /repo checkout -- . ; git -C /repo clean -fdq -- . 
echo "$out" | grep -v "^model checked\|^note" | tail -${LINES_SHOWN:-6}
echo "mutcheck $PROP $(basename $(dirname $P))/$(basename $P) rc=$rc"
rm -rf /verif/replays
exit $rc
