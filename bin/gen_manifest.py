#!/usr/bin/env python3
"""Writes /verif/MANIFEST.json from the table below (single source for the interface)."""
import json, os, subprocess, sys
VERIF = os.path.dirname(os.path.dirname(os.path.abspath(__file__)))
sys.path.insert(0, os.path.join(VERIF, 'bin'))

CORE_NOTE = ('Trusted: TLC; testing/synctest quiescence detection; the add-only verif-tag hooks (they log under the protecting lock and '
             'otherwise only block as gates); document identity read from stored fields of the real segments; crash model = process death '
             'at directory-operation boundaries plus torn variants of the in-flight item (every prefix, zero-filled), not arbitrary bit rot. '
             'Bounded: model constants are small (see spec/MC_*.cfg); schedules are seeded/PCT-style and delay-bounded DFS, not all interleavings.')

CHECKS = {
    'C01': ('Exhaustive TLC check of BlugeCore (invariants C01_RootIsAbstract, C01_SegIdsUnique, C01_UpdateUnique) over all interleavings of '
            'clients/introducer/persister/merger for small histories; then every recorded execution of the real writer (random batch histories x '
            'fs/in-memory x ice v1/v2 x safe/unsafe, seeded gate schedules) is replayed by TLC through BlugeTrace, which evaluates root = Abs(applied) '
            'after every root replacement and compares every Reader observation made through the public API (count, match-all + stored fields, '
            'per-id term lookup, sorted doc values, dictionary scan) with Abs; callers re-use Batch objects (Reset) in part of the scenarios; after Close every directory is reopened for real and observed again; sub-check: the same abstract index with 6000+ documents per segment (BigIndexTrace.tla).', '6 C01'),
    'C02': ('TLC: C02_AckedDurable with Crash enabled in every state (the invariant is the quantifier over crash instants). Code: every '
            'execution records directory operations and acknowledgements in one order; BlugeTrace keeps the file model (in-flight item = torn) and '
            'evaluates acked => durable after every event; independently, crash images at every operation boundary plus all torn variants of the '
            'in-flight item are really reopened (reader and writer) in a child process and must contain every acknowledged batch.', '6 C02'),
    'C03': ('TLC: C03_DiskIsPrefix / C03_EveryLoadableIsPrefix / C03_Recoverable with up to 2 crashes (epoch reuse after a torn snapshot is in the '
            'state space: this is how defect D2 was found). Code: crash images (boundaries, every prefix length of snapshot files, sampled prefixes of '
            'segment files, zero-filled) are reopened for real; TLC decides for each result: no process death, success whenever a snapshot had been '
            'completed, content = Abs(some prefix), further batches accepted; crash-recover-continue-crash (depth 2) runs validate the second '
            'incarnation against the ghost history cut to the recovered prefix; family mergeimg images persisted roots whose segments are not in id order (merges overlapped by batches); sub-check: large indexes (thousands of pending deletions) closed and reopened (BigIndexTrace.tla).', '6 C03'),
    'C04': ('TLC: reference-count model of snapshots and loaded file segments (C04_NoUseAfterClose, C04_ReaderFrozen). Code: several readers of '
            'different ages are held open while batches, merges, persists, removals and Close run; after EVERY released gate each held reader is '
            're-observed through the public API and TLC requires the observation to be identical to the one at acquisition; handle closes are events '
            'and TLC requires that no handle listed by the root or by a held reader is closed; the same under injected directory failures (family faults) and in free-running executions where every reader '
            'is searched by three goroutines at once; sub-check: 6000 generated searches (Search.tla) on 150 held readers, each executed twice on the same reader and compared with each other and with Search!Eval.', '6 C04'),
    'C05': ('TLC: C05_RealTime, C05_ReturnedApplied, C01_RootIsAbstract with 2 clients and the prepare/introduce split explicit (stale optimistic '
            'obsoletes). Code: 2..8 client goroutines over 2 ids under seeded schedules plus delay-bounded exhaustive enumeration of gate orders for the '
            'conflicting-update scenarios; the introducer hook gives the linearization order; TLC checks real-time order from Invoke/Return events, '
            'return-after-introduction, epoch monotonicity, and reader content = Abs(applied prefix); in free-running executions (real parallelism) readers obtained concurrently with the batches must show the abstract '
            'index after k batches with (returned before Writer.Reader() was called) <= k <= (introduced when the observation is logged).', '6 C05'),
    'C06': ('TLC: action property C06_Invisible (merge / in-memory merge / persist swap never change Vis(root)) with deletes landing in every phase of a '
            'merge, incl. whole-segment obsoletion and skipped merges. Code: eager merge options force file and in-memory merges on tiny indexes, '
            'deletes are concentrated on the segments under merge, and TLC compares Vis(root) before and after every IntroMerge / IntroPersist event '
            'logged under rootLock (documents are distinguishable by (id, batch uid, position), so a wrong old->new mapping cannot hide).', '6 C06'),
    'C11': ('TLC: C11_Retained, C11_AtLeastN, C11_RootFiles, C11_RemoveSafe, C11_HandlesBalanced, C11_Lock over KeepN in 1..3 with readers holding '
            'superseded segments. Code: every Persist/Load/Remove/closer call goes through the logging directory wrapper; TLC recomputes the deletion '
            'policy from the logged commits (PolicyCommit) and checks at every event: retained snapshots loadable, no removal of a needed or in-use file, '
            'handles closed exactly once and none left after Close (also for the offline writer: Offline.tla / OfflineTrace.tla, with injected failures), lock released (the directory is reopened immediately), second writer refused (two attempts); family filefaults places injected failures on the removals of the clean-up. In addition Apalache discharges an '
            'inductive invariant of the policy core (spec/Policy.tla: Init => IndInv, IndInv and Next => IndInv\', IndInv => C11_Retained and C11_AtLeastN), i.e. retention safety for any number '
            'of commits, clean-ups and failed removals.', '6 C11'),
    'C14': ('TLC: fault actions on the persister and merger directory steps (PFail/MFail) with C14_Surfaced, C14_AckCovers and C01/C02/C03/C04 re-checked. '
            'Code: a fault-free run is re-executed under the same schedule with an injected error (before any byte / after half / after the full write; '
            'transient and sticky) on a sampled directory operation; TLC checks: error surfaced to the safe caller and the async callback, readers still '
            'equal Abs, no unreadable item reported as persisted, the next successful persister round covers everything applied, durability clauses at '
            'every event and on crash images taken inside the fault window.', '6 C14'),
    'C15': ('TLC: Close modelled as closeCh + one exit action per select site of each loop; safety C15_CloseDurable in the quick tier, liveness '
            'closing ~> closed under weak fairness in the thorough tier. Code: Close is called by a gated goroutine as soon as callers returned, at '
            'schedule-chosen points in the middle of merges, persists and clean-ups; synctest makes a hang exact (all goroutines durably blocked => '
            'Stuck event => C15_stuck), with gates at the start of persist-swap and merge introductions and with the persister pacing itself against the merger; a free-running family (no gates, '
            'real parallelism, readers searched by several goroutines at once, reader churn while roots are replaced, a second goroutine calling Close at the same time) is validated by the same specification; a real-time watchdog turns a livelock (spinning goroutine, invisible to synctest) into a verdict; afterwards the directory is reopened for real and must contain every acknowledged batch. The data-race clause '
            'of the property is NOT decided by this technique (see DESIGN 6 C15).', '6 C15'),
}

TECH = 'TLA+ specification (BlugeCore) model-checked with TLC + trace validation of real executions (BlugeTrace) under a synctest gate controller'

NOT_APPLICABLE = [
    ('C10', 'pure 64-bit encode/decode order embedding over all int64/float64 bit patterns: TLC has 32-bit integers and no floats; no state or transitions to model (DESIGN 6 C10)'),
    ('C12', 'byte-level decoder fidelity/robustness over all byte strings (truncations, bit flips, fuzzing): not a state-transition property; TLC cannot execute varint/CRC/roaring decoding (DESIGN 6 C12)'),
    ('C17', 'relations between floating-point BM25 values with logarithms: TLC has no reals/floats (DESIGN 6 C17)'),
    ('C18', 'totality of 24 analyzers over arbitrary byte strings: pure string functions, TLC cannot index into strings (DESIGN 6 C18)'),
    ('C20', 'pure function over UTF-8 text windows; no state, schedule or history (DESIGN 6 C20)'),
]

PENDING = [
    ('C07', 'check under construction in this session (Search.tla vectors); not claimed until its check is registered'),
    ('C08', 'check under construction in this session (Layout.tla recipes); not claimed until its check is registered'),
    ('C09', 'check under construction in this session (Collector.tla); not claimed until its check is registered'),
    ('C13', 'check under construction in this session (DirFS.tla + strace); not claimed until its check is registered'),
    ('C16', 'check under construction in this session (Aggs.tla); not claimed until its check is registered'),
    ('C19', 'check under construction in this session (MergePlan.tla); not claimed until its check is registered'),
]


def main():
    import vextra
    extra = vextra.MANIFEST_ENTRIES if hasattr(vextra, 'MANIFEST_ENTRIES') else {}
    commits = subprocess.run(['git', '-C', '/repo', 'log', '--format=%H %s'], stdout=subprocess.PIPE, text=True).stdout.splitlines()
    hook_commits = [c.split()[0] for c in commits if ' verif-hooks:' in c]
    checks = []
    allc = dict(CHECKS)
    for pid in sorted(set(allc) | set(extra)):
        if pid in extra:
            text, ref, tech, note, cat = extra[pid]
        else:
            text, ref = allc[pid]
            tech, note, cat = TECH, CORE_NOTE, 'model_checking'
        checks.append(dict(property_id=pid, quick_cmd='bin/vcheck %s quick' % pid, thorough_cmd='bin/vcheck %s thorough' % pid,
                           evidence_file='evidence/%s.json' % pid, replay_cmd_template='bin/vcheck replay {path}',
                           engine='vcheck', level_claimed=dict(category=cat, text=text, design_ref=ref), level_note=note, technique=tech))
    claimed = {c['property_id'] for c in checks}
    na = [dict(property_id=p, reason=r) for p, r in NOT_APPLICABLE + PENDING if p not in claimed]
    m = dict(version=1, setup_cmd='bin/setup.sh',
             hooks=dict(guard='verif',
                        enable='go1.26.8 test -tags verif in /verif/harness (module replaces github.com/blugelabs/bluge with /repo; GOTOOLCHAIN=local GOFLAGS=-mod=mod GOPROXY=off)',
                        baseline_off_cmd='cd /repo && go test -mod=mod -json -vet=off -count=1 -timeout 25m ./...',
                        source_commits=hook_commits, add_only=True),
             engines=[dict(name='vcheck', path='bin/vcheck', serves_properties=sorted(claimed),
                           kind_free_text='python3 orchestrator: TLC model checking of spec/*.tla, Go conformance harness (harness/, go1.26.8 synctest, -tags verif), TLC trace validation, evidence writer')],
             checks=checks,
             notes='Technique family: model-based verification with explicit TLA+ specifications (spec/), bound to the code by trace validation and TLC-generated vectors. See DESIGN.md. known_findings.jsonl lists recorded findings and fixed defects.',
             not_applicable=na)
    json.dump(m, open(os.path.join(VERIF, 'MANIFEST.json'), 'w'), indent=1)
    print('wrote MANIFEST.json with', len(checks), 'checks;', len(na), 'not applicable')


if __name__ == '__main__':
    main()
