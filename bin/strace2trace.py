#!/usr/bin/env python3
"""Converts strace output of persistprobe into the ndjson events of DirFSTrace.tla."""
import json, os, re, sys

LINE = re.compile(r'^(\d+)\s+(\w+)\((.*)\)\s+=\s+(-?\d+|\?)(.*)$')
UNFIN = re.compile(r'^(\d+)\s+(\w+)\((.*) <unfinished \.\.\.>$')
RESUM = re.compile(r'^(\d+)\s+<\.\.\. (\w+) resumed>(.*)$')


def convert(stracefile, testdir, out):
    testdir = testdir.rstrip('/')
    pending = {}
    fdmap = {}
    events = []
    active = False
    item = None

    def pname(path):
        if path == item:
            return 'item'
        return 'tmp:' + os.path.basename(path)

    lines = []
    for raw in open(stracefile, errors='replace'):
        raw = raw.rstrip('\n')
        m = UNFIN.match(raw)
        if m:
            pending[(m.group(1), m.group(2))] = m.group(3)
            continue
        m = RESUM.match(raw)
        if m:
            key = (m.group(1), m.group(2))
            head = pending.pop(key, '')
            raw = '%s %s(%s%s' % (m.group(1), m.group(2), head, m.group(3))
        lines.append(raw)
    for raw in lines:
        m = LINE.match(raw)
        if not m:
            continue
        pid, call, args, ret = m.group(1), m.group(2), m.group(3), m.group(4)
        if ret == '?':
            continue
        ret = int(ret)
        if 'AT_REMOVEDIR' in args:
            continue
        pm = re.search(r'"(%s/[^"]*)"' % re.escape(testdir), args)
        path = pm.group(1) if pm else None
        if call in ('unlink', 'unlinkat') and path and os.path.basename(path).startswith('MARK.'):
            parts = os.path.basename(path).split('.')
            if parts[1] == 'call':
                size, pre, kind = int(parts[2]), int(parts[3]), parts[4]
                events.append(dict(ev='call', size=size, pre=pre, kind=kind, prestate=parts[5], fail=parts[6], held=parts[5] == 'held'))
                active = True
                fdmap = {}
                item = None
            elif parts[1] == 'ret':
                events.append(dict(ev='ret', err='' if parts[2] == 'ok' else 'error'))
                active = False
            elif parts[1] == 'after':
                events.append(dict(ev='after', exists=parts[2] == 'true', size=int(parts[3]), equal=parts[4] == 'true'))
            continue
        if not active:
            continue
        if call == 'openat' and path and ret >= 0:
            if item is None and re.search(r'/[0-9a-f]{12}\.(seg|snp)$', path):
                item = path
            fdmap[ret] = path
            events.append(dict(ev='open', p=pname(path), creat='O_CREAT' in args, trunc='O_TRUNC' in args, fd=ret))
        elif call in ('write', 'pwrite64', 'ftruncate', 'fsync', 'fdatasync', 'close', 'flock'):
            fd = int(args.split(',')[0])
            if fd not in fdmap:
                continue
            if call == 'write' and ret >= 0:
                events.append(dict(ev='write', fd=fd, n=ret))
            elif call == 'pwrite64' and ret >= 0:
                off = int(args.rsplit(',', 1)[1])
                events.append(dict(ev='pwrite', fd=fd, n=ret, off=off))
            elif call == 'ftruncate' and ret == 0:
                events.append(dict(ev='ftruncate', fd=fd, len=int(args.split(',')[1])))
            elif call in ('fsync', 'fdatasync') and ret == 0:
                events.append(dict(ev='fsync', fd=fd))
            elif call == 'close':
                events.append(dict(ev='close', fd=fd))
                del fdmap[fd]
        elif call in ('unlink', 'unlinkat') and path and ret == 0:
            events.append(dict(ev='unlink', p=pname(path)))
        elif call in ('rename', 'renameat', 'renameat2') and ret == 0:
            ps = re.findall(r'"(%s/[^"]*)"' % re.escape(testdir), args)
            if len(ps) == 2:
                if item is None and re.search(r'/[0-9a-f]{12}\.(seg|snp)$', ps[1]):
                    item = ps[1]
                events.append(dict(ev='rename', **{'from': pname(ps[0]), 'to': pname(ps[1])}))
    with open(out, 'w') as f:
        for e in events:
            f.write(json.dumps(e) + '\n')
    return events


if __name__ == '__main__':
    evs = convert(sys.argv[1], sys.argv[2], sys.argv[3])
    print(len(evs), 'events')
