"""vcheck -- orchestrates TLC and the Go conformance harness for one property.

  vcheck <id> quick|thorough     run the check, write evidence/<id>.json
  vcheck setup                   parse specs, pre-build the harness
  vcheck replay <path>           re-validate and re-execute a stored violation

exit 0: property held on everything explored (KNOWN-FINDING lines allowed)
exit 1: VIOLATION property=<id> replay=<path>
exit 2: inconclusive (tool failure, model-only counterexample, timeout)
"""
import json, os, re, shutil, subprocess, sys, time, glob, concurrent.futures as cf

VERIF = os.path.dirname(os.path.dirname(os.path.abspath(__file__)))
SPEC = os.path.join(VERIF, 'spec')
HARNESS = os.path.join(VERIF, 'harness')
# The checks decide /repo's working tree.  For testing the machinery itself (seeded changes applied in scratch
# worktrees, several at once) VERIF_REPO names another checkout and VERIF_OUTDIR another place for evidence/replays.
REPO = os.environ.get('VERIF_REPO', '/repo')
OUTROOT = os.environ.get('VERIF_OUTDIR', VERIF)


def harness_dir(sd):
    """The harness module to build: /verif/harness (replace => /repo), or a scratch copy bound to VERIF_REPO."""
    if REPO == '/repo':
        shutil.copy('/repo/go.sum', os.path.join(HARNESS, 'go.sum'))
        return HARNESS
    d = os.path.join(sd, 'harness')
    if not os.path.exists(d):
        shutil.copytree(HARNESS, d)
        gm = open(os.path.join(d, 'go.mod')).read().replace('=> /repo', '=> ' + REPO)
        open(os.path.join(d, 'go.mod'), 'w').write(gm)
        shutil.copy(os.path.join(REPO, 'go.sum'), os.path.join(d, 'go.sum'))
    return d

GOENV = dict(os.environ, GOFLAGS='-mod=mod', GOPROXY='off', GOSUMDB='off', GOTOOLCHAIN='local')
NCPU = os.cpu_count() or 8


def log(*a):
    print(*a, flush=True)


class Inconclusive(Exception):
    pass


def scratch_dir(tag):
    base = '/dev/shm' if os.path.isdir('/dev/shm') else '/var/tmp'
    d = os.path.join(base, 'vcheck-%s-%d' % (tag, os.getpid()))
    shutil.rmtree(d, ignore_errors=True)
    os.makedirs(d)
    return d


# --------------------------------------------------------------------------
# TLC

TLC_CP = '/opt/veriftools/tla/tla2tools.jar:/opt/veriftools/tla/CommunityModules-deps.jar'


def tlc_run(workdir, module, cfg, workers='auto', timeout=900, extra=(), java_opts=None, small=False):
    """Runs TLC in workdir (which already holds module and cfg). Returns (rc, output)."""
    env = dict(os.environ)
    if java_opts:
        env['JAVA_TOOL_OPTIONS'] = java_opts
    if small:
        # a single-threaded trace validation: small heap, serial collector, so that many can run side by side
        tlc = ['java', '-XX:+UseSerialGC', '-Xmx3g', '-Xss512m', '-Dtlc2.tool.queue.IStateQueue=StateDeque', '-cp', TLC_CP, 'tlc2.TLC']
    else:
        tlc = ['tlc']
    cmd = ['timeout', str(timeout)] + tlc + ['-workers', str(workers), '-metadir', os.path.join(workdir, 'md'),
           '-config', cfg] + list(extra) + [module]
    p = subprocess.run(cmd, cwd=workdir, env=env, stdout=subprocess.PIPE, stderr=subprocess.STDOUT, text=True)
    return p.returncode, p.stdout


def tlc_stats(out):
    m = re.search(r'(\d+) states generated, (\d+) distinct states found', out)
    if not m:
        return 0, 0
    return int(m.group(2)), int(m.group(1))


def model_check(sd, name, module, cfg, timeout, workers=None, extra=()):
    """Model-checks spec/<module> with spec/<cfg>. A counterexample on the model
    alone is never a violation of the code: it makes the run inconclusive."""
    wd = os.path.join(sd, 'mc-' + name)
    os.makedirs(wd, exist_ok=True)
    for f in glob.glob(os.path.join(SPEC, '*.tla')):
        shutil.copy(f, wd)
    shutil.copy(os.path.join(SPEC, cfg), wd)
    t0 = time.time()
    rc, out = tlc_run(wd, module, cfg, workers=workers or NCPU, timeout=timeout, extra=extra)
    states, trans = tlc_stats(out)
    ok = 'Model checking completed. No error has been found.' in out
    res = dict(name=name, module=module, cfg=cfg, states=states, transitions=trans, ok=ok, wall_s=round(time.time() - t0, 1))
    if not ok:
        tail = '\n'.join(out.splitlines()[-60:])
        with open(os.path.join(OUTROOT, 'evidence', 'last-mc-failure-%s.txt' % name), 'w') as f:
            f.write(out[-200000:])
        raise Inconclusive('TLC did not complete %s/%s (rc=%d): model-level counterexample or tool failure; see evidence/last-mc-failure-%s.txt\n%s'
                           % (module, cfg, rc, name, tail[-3000:]))
    shutil.rmtree(wd, ignore_errors=True)
    return res


# --------------------------------------------------------------------------
# harness

def build_harness(sd):
    hd = harness_dir(sd)
    binp = os.path.join(sd, 'drivers.test')
    p = subprocess.run(['go1.26.8', 'test', '-tags', 'verif', '-c', '-o', binp, './drivers/'], cwd=hd, env=GOENV,
                       stdout=subprocess.PIPE, stderr=subprocess.STDOUT, text=True)
    if p.returncode != 0:
        # the tree under test does not build with the hooks: nothing can be decided
        raise Inconclusive('harness build failed:\n' + p.stdout[-4000:])
    return binp


def run_driver(binp, out, family, runs, seed, shard, timeout, test='TestDrive', extra_env=None):
    env = dict(GOENV, VERIF_OUT=out, VERIF_FAMILY=family, VERIF_RUNS=str(runs), VERIF_SEED=str(seed), VERIF_SHARD=str(shard))
    if extra_env:
        env.update(extra_env)
    p = subprocess.run(['timeout', str(timeout), binp, '-test.run', '^%s$' % test, '-test.count', '1', '-test.timeout', '%ds' % timeout],
                       cwd=os.path.dirname(binp), env=env, stdout=subprocess.PIPE, stderr=subprocess.STDOUT, text=True)
    return p.returncode, p.stdout


def drive(binp, sd, family, total_runs, seed, timeout=600, shards=None, test='TestDrive', extra_env=None):
    """Runs the driver family in parallel shards; returns the output dir and the driver logs."""
    shards = shards or min(NCPU, max(1, total_runs))
    per = max(1, (total_runs + shards - 1) // shards)
    out = os.path.join(sd, 'out-' + family)
    os.makedirs(out, exist_ok=True)
    logs = []
    with cf.ThreadPoolExecutor(max_workers=shards) as ex:
        futs = {ex.submit(run_driver, binp, out, family, per, seed, s, timeout, test, extra_env): s for s in range(shards)}
        for f in cf.as_completed(futs):
            rc, o = f.result()
            logs.append((futs[f], rc, o))
    return out, logs


VIOL_RE = re.compile(r'<<"VIOL", "([A-Za-z0-9_]+)", (\d+), (\d+)>>')


def validate_trace(sd, tracefile, keep, tag, timeout=900):
    wd = os.path.join(sd, 'tr-' + tag)
    os.makedirs(wd, exist_ok=True)
    for f in ('BlugeCore.tla', 'BlugeTrace.tla'):
        shutil.copy(os.path.join(SPEC, f), wd)
    cfg = open(os.path.join(SPEC, 'Trace.cfg')).read().replace('KeepN = 1', 'KeepN = %d' % keep)
    open(os.path.join(wd, 'Trace.cfg'), 'w').write(cfg)
    shutil.copy(tracefile, os.path.join(wd, 'trace.ndjson'))
    rc, out = tlc_run(wd, 'BlugeTrace.tla', 'Trace.cfg', workers=1, timeout=timeout, small=True)
    viols = [(m.group(1), int(m.group(2)), int(m.group(3))) for m in VIOL_RE.finditer(out)]
    done = re.search(r'<<"TRACE-DONE", (\d+)>>', out)
    nlines = sum(1 for _ in open(tracefile))
    ok = done is not None and int(done.group(1)) == nlines and 'TRACE-NOT-CONSUMED' not in out \
        and 'Model checking completed. No error has been found.' in out
    states, trans = tlc_stats(out)
    if not ok:
        with open(os.path.join(OUTROOT, 'evidence', 'last-trace-failure.txt'), 'w') as f:
            f.write(out[-200000:])
    shutil.rmtree(wd, ignore_errors=True)
    return dict(file=tracefile, ok=ok, viols=viols, events=nlines, states=states, out_tail=out[-3000:] if not ok else '')


def merge_traces(outdir, chunk_events=6000):
    """Concatenates the shard traces per KeepN into chunks (one JVM start per chunk)."""
    groups = {}
    for f in sorted(glob.glob(os.path.join(outdir, 'trace-keep*-s*.ndjson'))):
        keep = int(re.search(r'trace-keep(\d+)-', f).group(1))
        groups.setdefault(keep, []).append(f)
    out = []
    for keep, fs in groups.items():
        n, part, cur = 0, 0, None
        for f in fs:
            for line in open(f):
                if cur is None or (n >= chunk_events and '"ev":"Reset"' in line):
                    if cur:
                        cur.close()
                    part += 1
                    name = os.path.join(outdir, 'merged-keep%d-p%d.ndjson' % (keep, part))
                    cur = open(name, 'w')
                    out.append(name)
                    n = 0
                cur.write(line)
                n += 1
        if cur:
            cur.close()
    return out


def validate_all(sd, outdir):
    files = merge_traces(outdir)
    res = []
    with cf.ThreadPoolExecutor(max_workers=max(2, NCPU - 2)) as ex:
        futs = []
        for i, f in enumerate(files):
            keep = int(re.search(r'-keep(\d+)-', f).group(1))
            futs.append(ex.submit(validate_trace, sd, f, keep, '%s-%d' % (os.path.basename(outdir), i)))
        for fu in futs:
            res.append(fu.result())
    return res


def load_runs(outdir):
    runs = {}
    for f in glob.glob(os.path.join(outdir, 'runs-s*.jsonl')):
        for line in open(f):
            m = json.loads(line)
            runs[m['run']] = m
    return runs


def extract_run(tracefile, run):
    """Returns the lines of one run (from its Reset to the next)."""
    lines, on = [], False
    for line in open(tracefile):
        if '"ev":"Reset"' in line:
            on = ('"run":%d,' % run in line) or ('"run":%d}' % run in line)
        if on:
            lines.append(line)
    return lines


# --------------------------------------------------------------------------
# known findings

def known_findings():
    rv = []
    p = os.path.join(VERIF, 'known_findings.jsonl')
    if os.path.exists(p):
        for line in open(p):
            line = line.strip()
            if line and not line.startswith('#'):
                rv.append(json.loads(line))
    return rv


def is_known(prop, clause, scenario_name):
    for k in known_findings():
        if k.get('status') == 'known' and k['property'] == prop and k['clause'] == clause and k['scenario'] == scenario_name:
            return k
    return None


# --------------------------------------------------------------------------
def write_evidence(prop, tier, seed, level, coverage, assumptions, wall, violations):
    os.makedirs(os.path.join(OUTROOT, 'evidence'), exist_ok=True)
    ev = dict(property_id=prop, tier=tier, seed=seed, level=level, coverage=coverage, assumptions=assumptions,
              wall_s=round(wall, 1), violations=violations)
    with open(os.path.join(OUTROOT, 'evidence', prop + '.json'), 'w') as f:
        json.dump(ev, f, indent=1, default=str)


def save_replay(prop, seed, run_meta, trace_lines, clause, line_no, note=''):
    d = os.path.join(OUTROOT, 'replays', prop, '%d-%s-run%s' % (int(time.time()), seed, run_meta.get('run', 'x') if run_meta else 'x'))
    os.makedirs(d, exist_ok=True)
    with open(os.path.join(d, 'trace.ndjson'), 'w') as f:
        f.writelines(trace_lines)
    with open(os.path.join(d, 'meta.json'), 'w') as f:
        json.dump(dict(property=prop, clause=clause, line=line_no, run=run_meta, note=note), f, indent=1)
    return d


