#!/bin/bash
# runs every seeded change against the quick check of its property in scratch worktrees, ${PAR:-4} at a time;
# prints one line per change: <id> rc=<rc> <first clause>
cd /verif
one() {
  d=$1; id=$(basename $d); prop=${id%-*}
  out=$(bin/mutcheck_wt.sh /verif/seeded/$id/patch.diff $prop quick 2>&1); rc=$?
  clause=$(echo "$out" | grep -o "clause [A-Za-z0-9_]* failed\|C[0-9][0-9]_[A-Za-z0-9_]* at\|offline writer: C[0-9A-Za-z_]*\|died inside\|panicked\|livelock" | head -1)
  echo "$id rc=$rc $clause"
}
export -f one
ls -d seeded/*/ | grep -v "C15-1/" | xargs -P ${PAR:-4} -I{} bash -c 'one {}'
