#!/bin/bash
# usage: tlctrace.sh <trace.ndjson> <keepN> <scratchdir>  -> TLC output on stdout
set -e
T=$1; K=$2; D=$3
rm -rf "$D"; mkdir -p "$D"
cp /verif/spec/BlugeCore.tla /verif/spec/BlugeTrace.tla "$D"/
sed "s/KeepN = 1/KeepN = $K/" /verif/spec/Trace.cfg > "$D"/Trace.cfg
cp "$T" "$D"/trace.ndjson
cd "$D"
exec timeout ${TLC_TIMEOUT:-900} tlc -workers 1 -metadir "$D"/md -config Trace.cfg BlugeTrace.tla
