#!/bin/bash
# usage: mutcheck_wt.sh <patch.diff> <PROP> [tier]
# Runs the check of PROP against a scratch worktree of /repo with the patch applied (VERIF_REPO), leaving
# /repo, /verif/evidence and /verif/replays untouched: several of these can run side by side.
P=$(readlink -f "$1"); PROP=$2; TIER=${3:-quick}
WT=$(mktemp -d /dev/shm/mutwt-XXXXXX); OUT=$(mktemp -d /dev/shm/mutout-XXXXXX)
rmdir $WT
git -C /repo worktree add -q --detach $WT HEAD || exit 9
trap 'git -C /repo worktree remove --force $WT; rm -rf $OUT' EXIT
git -C $WT apply "$P" || { echo "patch does not apply"; exit 9; }
cd /verif
out=$(VERIF_REPO=$WT VERIF_OUTDIR=$OUT VERIF_SEED=${VERIF_SEED:-1} bin/vcheck $PROP $TIER 2>&1); rc=$?
echo "$out" | grep -v "^model checked\|^note" | tail -${LINES_SHOWN:-6}
echo "mutcheck_wt $PROP $(basename $(dirname $P)) rc=$rc"
exit $rc
