// Package sq builds real bluge indexes and queries from the JSON forms that
// the Search/Collector/Aggs/Layout specifications evaluate.
package sq

import (
	"context"
	"fmt"
	"math/rand"
	"strconv"
	"strings"
	"time"

	"github.com/blugelabs/bluge"
	"github.com/blugelabs/bluge/index"
	"github.com/blugelabs/bluge/index/mergeplan"
	ice2 "github.com/blugelabs/ice/v2"
)

// Term is a sequence of letters (1 = 'a', 2 = 'b', ...).
type Term []int

func (t Term) String() string {
	var sb strings.Builder
	for _, l := range t {
		if l >= 27 { // letters beyond 'z': supplementary-plane runes (four bytes in UTF-8)
			sb.WriteRune(rune(0x10348 + l - 27))
			continue
		}
		sb.WriteByte(byte('a' + l - 1))
	}
	return sb.String()
}

// Doc is one logical document.
type Doc struct {
	ID int                `json:"id"`
	T  map[string][]Term  `json:"t"`           // text field -> tokens
	N  map[string][]int   `json:"n"`           // numeric field -> values
	D  map[string][]int   `json:"d"`           // date field -> whole seconds
	K  map[string][]Term  `json:"k"`           // keyword field -> values (aggregations / sorting)
	G  map[string][][]int `json:"g,omitempty"` // geo point field -> [lon, lat] in whole degrees
}

type Seg struct {
	Docs []Doc `json:"docs"`
	Del  []int `json:"del"` // 1-based positions with a pending deletion
}

type Corpus struct {
	Segs []Seg `json:"segs"`
}

func DocName(id int) string { return "d" + strconv.Itoa(id) }

var Epoch = time.Date(2020, 1, 1, 0, 0, 0, 0, time.UTC)

// RealDoc builds the bluge document.
func RealDoc(d Doc) *bluge.Document {
	rd := bluge.NewDocument(DocName(d.ID))
	for f, toks := range d.T {
		var words []string
		for _, t := range toks {
			words = append(words, t.String())
		}
		rd.AddField(bluge.NewTextField(f, strings.Join(words, " ")).SearchTermPositions().StoreValue())
	}
	for f, vals := range d.N {
		for _, v := range vals {
			rd.AddField(bluge.NewNumericField(f, float64(v)).StoreValue().Sortable().Aggregatable())
		}
	}
	for f, vals := range d.D {
		for _, v := range vals {
			rd.AddField(bluge.NewDateTimeField(f, Epoch.Add(time.Duration(v)*time.Second)).StoreValue().Sortable().Aggregatable())
		}
	}
	for f, vals := range d.K {
		for _, v := range vals {
			rd.AddField(bluge.NewKeywordField(f, v.String()).StoreValue().Sortable().Aggregatable())
		}
	}
	for f, pts := range d.G {
		for _, p := range pts {
			rd.AddField(bluge.NewGeoPointField(f, float64(p[0]), float64(p[1])))
		}
	}
	return rd
}

// BuildOpts selects how the index is physically built.
type BuildOpts struct {
	Path       string // "" = in memory
	SegVersion int
	NoMerge    bool
	// OfflinePrefix > 1: the first that many segments of the corpus are written by the OfflineWriter (several small
	// batches merged into ONE segment at its Close: merged segments use encodings that fresh ones never do, e.g. the
	// single-document posting), the rest by a regular writer opened on the same directory. Needs Path.
	OfflinePrefix int
}

// Config returns a configuration whose layout is exactly what the batches produce.
func Config(o BuildOpts) bluge.Config {
	var cfg bluge.Config
	if o.Path == "" {
		cfg = bluge.InMemoryOnlyConfig()
	} else {
		cfg = bluge.DefaultConfig(o.Path)
	}
	ic := cfg.VerifIndexConfig()
	if o.SegVersion == 2 {
		ic = ic.WithSegmentType(ice2.Type).WithSegmentVersion(ice2.Version)
	}
	if o.NoMerge {
		mo := mergeplan.DefaultMergePlanOptions
		mo.CalcBudget = func(int64, int64, *mergeplan.Options) int { return 1 << 20 }
		ic.MergePlanOptions = mo
		ic.MinSegmentsForInMemoryMerge = 1 << 20
	}
	return cfg.VerifWithIndexConfig(ic)
}

// Build indexes the corpus: one batch per segment, then one delete-only batch.
func Build(c Corpus, o BuildOpts) (*bluge.Writer, *bluge.Reader, error) {
	o.NoMerge = true
	skip := 0
	if o.OfflinePrefix > 1 && o.Path != "" && len(c.Segs) >= o.OfflinePrefix {
		ow, err := bluge.OpenOfflineWriter(Config(o), 1, 10)
		if err != nil {
			return nil, nil, err
		}
		for _, s := range c.Segs[:o.OfflinePrefix] {
			for _, d := range s.Docs {
				if err = ow.Insert(RealDoc(d)); err != nil {
					return nil, nil, err
				}
			}
		}
		if err = ow.Close(); err != nil {
			return nil, nil, err
		}
		skip = o.OfflinePrefix
	}
	w, err := bluge.OpenWriter(Config(o))
	if err != nil {
		return nil, nil, err
	}
	for _, s := range c.Segs[skip:] {
		b := index.NewBatch()
		for _, d := range s.Docs {
			b.Insert(RealDoc(d))
		}
		if err = w.Batch(b); err != nil {
			return nil, nil, err
		}
	}
	b := index.NewBatch()
	n := 0
	for _, s := range c.Segs {
		for _, p := range s.Del {
			b.Delete(bluge.Identifier(DocName(s.Docs[p-1].ID)))
			n++
		}
	}
	if n > 0 {
		if err = w.Batch(b); err != nil {
			return nil, nil, err
		}
	}
	r, err := w.Reader()
	return w, r, err
}

// Q is a query tree.
type Q struct {
	T      string   `json:"t"`
	F      string   `json:"f,omitempty"`
	V      Term     `json:"v,omitempty"`
	Terms  []Term   `json:"-"`
	TermsJ any      `json:"terms,omitempty"`
	Alts   [][]Term `json:"-"`
	Op     string   `json:"op,omitempty"`
	Slop   int      `json:"slop"`
	P      []int    `json:"p,omitempty"`
	R      *Re      `json:"r,omitempty"`
	Fuzz   int      `json:"fuzz"`
	Pre    int      `json:"pre"`
	Lo     any      `json:"lo,omitempty"`
	Hi     any      `json:"hi,omitempty"`
	ILo    bool     `json:"ilo"`
	IHi    bool     `json:"ihi"`
	HasLo  bool     `json:"haslo"`
	HasHi  bool     `json:"hashi"`
	Must   []*Q     `json:"must,omitempty"`
	Should []*Q     `json:"should,omitempty"`
	Nots   []*Q     `json:"nots,omitempty"`
	Min    int      `json:"min"`
	// geo bounding box in half degrees (so that no point lies on an edge): left, top, right, bottom
	GL, GT, GR, GB int   `json:"-"`
	Box            []int `json:"box,omitempty"`
	// geo distance: centre <<lon, lat>> in whole degrees (one of GeoCentres) and radius in km
	C  []int `json:"c,omitempty"`
	Km int   `json:"km,omitempty"`
	// regexp: prefix the pattern with (?i) and give its letters in upper case
	CI bool `json:"ci,omitempty"`
}

// Re is a regular expression tree.
type Re struct {
	K string `json:"k"`
	C int    `json:"c,omitempty"`
	S []int  `json:"s,omitempty"`
	A *Re    `json:"a,omitempty"`
	B *Re    `json:"b,omitempty"`
}

func (r *Re) String() string {
	switch r.K {
	case "eps":
		return ""
	case "lit":
		return string(rune('a' + r.C - 1))
	case "any":
		return "."
	case "cls":
		s := "["
		for _, c := range r.S {
			s += string(rune('a' + c - 1))
		}
		return s + "]"
	case "alt":
		return "(" + r.A.String() + "|" + r.B.String() + ")"
	case "cat":
		return r.A.String() + r.B.String()
	case "star":
		return "(" + r.A.String() + ")*"
	}
	return ""
}

func (q *Q) fix() {
	// prepare the JSON forms that depend on the kind
	switch q.T {
	case "geobox":
		q.Box = []int{q.GL, q.GT, q.GR, q.GB}
	case "match":
		if q.Terms == nil {
			q.Terms = []Term{}
		}
		q.TermsJ = q.Terms
	case "phrase":
		if q.Alts == nil {
			q.Alts = [][]Term{}
		}
		q.TermsJ = q.Alts
	case "bool":
		if q.Must == nil {
			q.Must = []*Q{}
		}
		if q.Should == nil {
			q.Should = []*Q{}
		}
		if q.Nots == nil {
			q.Nots = []*Q{}
		}
		for _, c := range q.Must {
			c.fix()
		}
		for _, c := range q.Should {
			c.fix()
		}
		for _, c := range q.Nots {
			c.fix()
		}
	}
}

// Fix prepares the query for JSON output.
func (q *Q) Fix() *Q { q.fix(); return q }

func termOf(x any) Term {
	switch v := x.(type) {
	case Term:
		return v
	case []int:
		return Term(v)
	}
	return nil
}

// Real builds the bluge query.
func (q *Q) Real() (bluge.Query, error) {
	switch q.T {
	case "all":
		return bluge.NewMatchAllQuery(), nil
	case "none":
		return bluge.NewMatchNoneQuery(), nil
	case "term":
		return bluge.NewTermQuery(q.V.String()).SetField(q.F), nil
	case "match":
		var words []string
		for _, t := range q.Terms {
			words = append(words, t.String())
		}
		mq := bluge.NewMatchQuery(strings.Join(words, " ")).SetField(q.F)
		if q.Op == "and" {
			mq.SetOperator(bluge.MatchQueryOperatorAnd)
		}
		return mq, nil
	case "phrase":
		simple := true
		for _, a := range q.Alts {
			if len(a) != 1 {
				simple = false
			}
		}
		if simple && q.Op == "match" {
			var words []string
			for _, a := range q.Alts {
				words = append(words, a[0].String())
			}
			return bluge.NewMatchPhraseQuery(strings.Join(words, " ")).SetField(q.F).SetSlop(q.Slop), nil
		}
		var terms [][]string
		for _, a := range q.Alts {
			var alt []string
			for _, t := range a {
				alt = append(alt, t.String())
			}
			terms = append(terms, alt)
		}
		return bluge.NewMultiPhraseQuery(terms).SetField(q.F).SetSlop(q.Slop), nil
	case "prefix":
		return bluge.NewPrefixQuery(q.V.String()).SetField(q.F), nil
	case "wildcard":
		var sb strings.Builder
		for _, c := range q.P {
			switch c {
			case 0:
				sb.WriteByte('*')
			case -1:
				sb.WriteByte('?')
			default:
				sb.WriteByte(byte('a' + c - 1))
			}
		}
		return bluge.NewWildcardQuery(sb.String()).SetField(q.F), nil
	case "regexp":
		if q.CI {
			// case-insensitive flag with the pattern's letters in upper case: the indexed terms are lower case, so the
			// meaning over them is that of the plain pattern
			return bluge.NewRegexpQuery("(?i)" + strings.ToUpper(q.R.String())).SetField(q.F), nil
		}
		return bluge.NewRegexpQuery(q.R.String()).SetField(q.F), nil
	case "fuzzy":
		return bluge.NewFuzzyQuery(q.V.String()).SetField(q.F).SetFuzziness(q.Fuzz).SetPrefix(q.Pre), nil
	case "trange":
		return bluge.NewTermRangeInclusiveQuery(termOf(q.Lo).String(), termOf(q.Hi).String(), q.ILo, q.IHi).SetField(q.F), nil
	case "nrange":
		lo, hi := bluge.MinNumeric, bluge.MaxNumeric
		if q.HasLo {
			lo = float64(q.Lo.(int))
		}
		if q.HasHi {
			hi = float64(q.Hi.(int))
		}
		return bluge.NewNumericRangeInclusiveQuery(lo, hi, q.ILo, q.IHi).SetField(q.F), nil
	case "drange":
		var lo, hi time.Time
		if q.HasLo {
			lo = Epoch.Add(time.Duration(q.Lo.(int)) * time.Second)
		}
		if q.HasHi {
			hi = Epoch.Add(time.Duration(q.Hi.(int)) * time.Second)
		}
		return bluge.NewDateRangeInclusiveQuery(lo, hi, q.ILo, q.IHi).SetField(q.F), nil
	case "geobox":
		return bluge.NewGeoBoundingBoxQuery(float64(q.GL)/2, float64(q.GT)/2, float64(q.GR)/2, float64(q.GB)/2).SetField(q.F), nil
	case "geodist":
		return bluge.NewGeoDistanceQuery(float64(q.C[0]), float64(q.C[1]), fmt.Sprintf("%dkm", q.Km)).SetField(q.F), nil
	case "bool":
		bq := bluge.NewBooleanQuery()
		for _, c := range q.Must {
			r, err := c.Real()
			if err != nil {
				return nil, err
			}
			bq.AddMust(r)
		}
		for _, c := range q.Should {
			r, err := c.Real()
			if err != nil {
				return nil, err
			}
			bq.AddShould(r)
		}
		for _, c := range q.Nots {
			r, err := c.Real()
			if err != nil {
				return nil, err
			}
			bq.AddMustNot(r)
		}
		bq.SetMinShould(q.Min)
		return bq, nil
	}
	return nil, fmt.Errorf("unknown query kind %q", q.T)
}

// IDsOf drains a result iterator into document ids (in return order).
func IDsOf(r *bluge.Reader, req bluge.SearchRequest) ([]int, error) {
	it, err := r.Search(context.Background(), req)
	if err != nil {
		return nil, err
	}
	rv := []int{}
	for {
		m, err := it.Next()
		if err != nil {
			return rv, err
		}
		if m == nil {
			return rv, nil
		}
		id := -1
		_ = r.VisitStoredFields(m.Number, func(field string, value []byte) bool {
			if field == "_id" {
				id, _ = strconv.Atoi(string(value[1:]))
			}
			return true
		})
		rv = append(rv, id)
	}
}

// ---- generators ---------------------------------------------------------------

var Vocab = []Term{{1}, {2}, {3}, {1, 1}, {1, 2}, {2, 1}, {1, 2, 3}, {1, 2, 1}, {3, 3}, {2, 2, 3}}

func RandTerm(r *rand.Rand) Term { return Vocab[r.Intn(len(Vocab))] }

// RandCorpus draws a corpus with nd documents in ns segments.
func RandCorpus(r *rand.Rand, nd, ns int, rich bool) Corpus {
	var c Corpus
	id := 0
	per := (nd + ns - 1) / ns
	for s := 0; s < ns && id < nd; s++ {
		var sg Seg
		k := per
		if r.Intn(3) == 0 {
			k = 1 + r.Intn(per+1)
		}
		for j := 0; j < k && id < nd; j++ {
			id++
			d := Doc{ID: id, T: map[string][]Term{}, N: map[string][]int{}, D: map[string][]int{}, K: map[string][]Term{}}
			for _, f := range []string{"f1", "f2"} {
				if r.Intn(6) == 0 {
					continue // field missing
				}
				n := 1 + r.Intn(5)
				for i := 0; i < n; i++ {
					d.T[f] = append(d.T[f], RandTerm(r))
				}
			}
			if rich {
				if r.Intn(5) > 0 {
					n := 1
					if r.Intn(4) == 0 {
						n = 2
					}
					for i := 0; i < n; i++ {
						d.N["n1"] = append(d.N["n1"], []int{-2, -1, 0, 1, 2, 3, 5, 8, 1000}[r.Intn(9)])
					}
				}
				if r.Intn(5) > 0 {
					d.D["t1"] = append(d.D["t1"], []int{0, 1, 59, 60, 3600, 86400, -1}[r.Intn(7)])
				}
				if r.Intn(5) > 0 {
					d.K["k1"] = append(d.K["k1"], Vocab[r.Intn(4)])
				}
				if r.Intn(3) > 0 {
					d.G = map[string][][]int{"g1": {{[]int{-179, -170, -10, 0, 10, 170, 179}[r.Intn(7)], []int{-80, -10, 0, 10, 80}[r.Intn(5)]}}}
				}
			}
			sg.Docs = append(sg.Docs, d)
		}
		sg.Del = []int{}
		if len(sg.Docs) > 1 && r.Intn(3) == 0 {
			sg.Del = append(sg.Del, 1+r.Intn(len(sg.Docs)))
		}
		c.Segs = append(c.Segs, sg)
	}
	return c
}

func field(r *rand.Rand) string { return []string{"f1", "f1", "f2"}[r.Intn(3)] }

// RandGeoDist draws a distance query: centre and radius from the generated table (the radii keep clear of
// every tabulated distance); every such query costs bluge 0.01-0.2 s (enumeration of geo cells), so they are not part of
// the random leaves but added separately by the probe.
func RandGeoDist(r *rand.Rand, maxKm int) *Q {
	for {
		c := GeoCentres[r.Intn(len(GeoCentres))]
		km := c.Radii[r.Intn(len(c.Radii))]
		if km <= maxKm {
			return &Q{T: "geodist", F: "g1", C: []int{c.Lon, c.Lat}, Km: km}
		}
	}
}

// RandGeoBox draws a box with edges on half degrees (no point lies on an edge); one in four crosses the date
// line (right < left).  Like distance queries these cost bluge about 0.1 s each.
func RandGeoBox(r *rand.Rand) *Q {
	xs := []int{-359, -341, -21, -1, 1, 21, 339, 359}
	ys := []int{-161, -21, -1, 1, 21, 161}
	q := &Q{T: "geobox", F: "g1", GL: xs[r.Intn(len(xs))], GR: xs[r.Intn(len(xs))], GT: ys[r.Intn(len(ys))], GB: ys[r.Intn(len(ys))]}
	if q.GT < q.GB {
		q.GT, q.GB = q.GB, q.GT
	}
	if q.GR < q.GL && r.Intn(4) > 0 {
		q.GL, q.GR = q.GR, q.GL
	}
	return q
}

// RandLeaf draws a leaf query (geo leaves are drawn separately: RandGeoBox, RandGeoDist).
func RandLeaf(r *rand.Rand, rich bool) *Q {
	n := 12
	if rich {
		n = 15
	}
	switch r.Intn(n) {
	case 0:
		return &Q{T: "all"}
	case 1:
		return &Q{T: "none"}
	case 2, 3:
		return &Q{T: "term", F: field(r), V: RandTerm(r)}
	case 4:
		q := &Q{T: "match", F: field(r), Op: []string{"or", "and"}[r.Intn(2)]}
		for i := 0; i < 1+r.Intn(3); i++ {
			q.Terms = append(q.Terms, RandTerm(r))
		}
		return q
	case 5:
		q := &Q{T: "phrase", F: field(r), Slop: []int{0, 0, 1, 2, 3}[r.Intn(5)], Op: []string{"match", "multi"}[r.Intn(2)]}
		for i := 0; i < 1+r.Intn(3); i++ {
			alt := []Term{RandTerm(r)}
			if r.Intn(4) == 0 {
				alt = append(alt, RandTerm(r))
			}
			q.Alts = append(q.Alts, alt)
		}
		return q
	case 6:
		t := RandTerm(r)
		return &Q{T: "prefix", F: field(r), V: t[:1+r.Intn(len(t))]}
	case 7:
		var p []int
		for i := 0; i < 1+r.Intn(3); i++ {
			p = append(p, []int{0, -1, 1, 2, 3}[r.Intn(5)])
		}
		return &Q{T: "wildcard", F: field(r), P: p}
	case 8:
		return &Q{T: "fuzzy", F: field(r), V: RandTerm(r), Fuzz: r.Intn(3), Pre: r.Intn(3)}
	case 9:
		q := &Q{T: "trange", F: field(r), ILo: r.Intn(2) == 0, IHi: r.Intn(2) == 0}
		lo, hi := Term{}, Term{}
		switch r.Intn(4) {
		case 0:
			lo = RandTerm(r)
		case 1:
			hi = RandTerm(r)
		default:
			lo, hi = RandTerm(r), RandTerm(r)
		}
		q.Lo, q.Hi = lo, hi
		return q
	case 10:
		return &Q{T: "regexp", F: field(r), R: randRe(r, 2), CI: r.Intn(3) == 0}
	case 11:
		return &Q{T: "term", F: "_id", V: nil} // replaced below: lookups by id are C01's business
	case 12, 13:
		q := &Q{T: "nrange", F: "n1", ILo: r.Intn(2) == 0, IHi: r.Intn(2) == 0, HasLo: r.Intn(4) > 0, HasHi: r.Intn(4) > 0}
		vals := []int{-3, -2, -1, 0, 1, 2, 3, 4, 5, 8, 9, 1000}
		q.Lo, q.Hi = vals[r.Intn(len(vals))], vals[r.Intn(len(vals))]
		if !q.HasLo && !q.HasHi {
			q.HasLo = true
		}
		return q
	default:
		q := &Q{T: "drange", F: "t1", ILo: r.Intn(2) == 0, IHi: r.Intn(2) == 0, HasLo: r.Intn(4) > 0, HasHi: r.Intn(4) > 0}
		vals := []int{-2, -1, 0, 1, 2, 59, 60, 61, 3600, 86400, 90000}
		q.Lo, q.Hi = vals[r.Intn(len(vals))], vals[r.Intn(len(vals))]
		if !q.HasLo && !q.HasHi {
			q.HasHi = true
		}
		return q
	}
}

func randRe(r *rand.Rand, depth int) *Re {
	if depth == 0 || r.Intn(3) == 0 {
		switch r.Intn(3) {
		case 0:
			return &Re{K: "lit", C: 1 + r.Intn(3)}
		case 1:
			return &Re{K: "any"}
		default:
			return &Re{K: "cls", S: []int{1 + r.Intn(3), 1 + r.Intn(3)}}
		}
	}
	switch r.Intn(3) {
	case 0:
		return &Re{K: "cat", A: randRe(r, depth-1), B: randRe(r, depth-1)}
	case 1:
		return &Re{K: "alt", A: randRe(r, depth-1), B: randRe(r, depth-1)}
	default:
		return &Re{K: "star", A: randRe(r, depth-1)}
	}
}

// RandQuery draws a query tree of the given depth; width is the largest number of clauses.
func RandQuery(r *rand.Rand, depth, width int, rich bool) *Q {
	if depth == 0 || r.Intn(4) == 0 {
		q := RandLeaf(r, rich)
		for q.T == "term" && q.F == "_id" {
			q = RandLeaf(r, rich)
		}
		return q
	}
	q := &Q{T: "bool"}
	nm, nsh, nn := r.Intn(3), r.Intn(width+1), r.Intn(3)
	if r.Intn(3) == 0 {
		nsh = 0
	}
	if nm+nsh+nn == 0 {
		nm = 1
	}
	for i := 0; i < nm; i++ {
		q.Must = append(q.Must, RandQuery(r, depth-1, width, rich))
	}
	for i := 0; i < nsh; i++ {
		q.Should = append(q.Should, RandQuery(r, depth-1, width, rich))
	}
	for i := 0; i < nn; i++ {
		q.Nots = append(q.Nots, RandQuery(r, depth-1, width, rich))
	}
	q.Min = r.Intn(4)
	if q.Min > nsh {
		q.Min = r.Intn(nsh + 1)
	}
	return q
}

// ---- decoding the logged JSON form back into queries (replay / diagnosis) ----

func toTerm(x any) Term {
	arr, _ := x.([]any)
	t := Term{}
	for _, v := range arr {
		t = append(t, int(v.(float64)))
	}
	return t
}

func reFrom(m map[string]any) *Re {
	if m == nil {
		return nil
	}
	r := &Re{K: m["k"].(string)}
	if v, ok := m["c"].(float64); ok {
		r.C = int(v)
	}
	if v, ok := m["s"].([]any); ok {
		for _, x := range v {
			r.S = append(r.S, int(x.(float64)))
		}
	}
	if v, ok := m["a"].(map[string]any); ok {
		r.A = reFrom(v)
	}
	if v, ok := m["b"].(map[string]any); ok {
		r.B = reFrom(v)
	}
	return r
}

// FromJSON rebuilds a query tree from its logged form.
func FromJSON(m map[string]any) *Q {
	q := &Q{T: m["t"].(string)}
	if v, ok := m["f"].(string); ok {
		q.F = v
	}
	if v, ok := m["v"]; ok {
		q.V = toTerm(v)
	}
	if v, ok := m["op"].(string); ok {
		q.Op = v
	}
	num := func(k string) int {
		if v, ok := m[k].(float64); ok {
			return int(v)
		}
		return 0
	}
	b := func(k string) bool { v, _ := m[k].(bool); return v }
	q.Slop, q.Fuzz, q.Pre, q.Min = num("slop"), num("fuzz"), num("pre"), num("min")
	q.ILo, q.IHi, q.HasLo, q.HasHi = b("ilo"), b("ihi"), b("haslo"), b("hashi")
	switch q.T {
	case "match":
		for _, t := range m["terms"].([]any) {
			q.Terms = append(q.Terms, toTerm(t))
		}
	case "phrase":
		for _, a := range m["terms"].([]any) {
			var alt []Term
			for _, t := range a.([]any) {
				alt = append(alt, toTerm(t))
			}
			q.Alts = append(q.Alts, alt)
		}
	case "wildcard":
		for _, x := range m["p"].([]any) {
			q.P = append(q.P, int(x.(float64)))
		}
	case "regexp":
		q.R = reFrom(m["r"].(map[string]any))
		q.CI = b("ci")
	case "trange":
		q.Lo, q.Hi = toTerm(m["lo"]), toTerm(m["hi"])
	case "geobox":
		b := m["box"].([]any)
		q.GL, q.GT, q.GR, q.GB = int(b[0].(float64)), int(b[1].(float64)), int(b[2].(float64)), int(b[3].(float64))
	case "geodist":
		c := m["c"].([]any)
		q.C, q.Km = []int{int(c[0].(float64)), int(c[1].(float64))}, num("km")
	case "nrange", "drange":
		q.Lo, q.Hi = num("lo"), num("hi")
	case "bool":
		for _, k := range []string{"must", "should", "nots"} {
			if arr, ok := m[k].([]any); ok {
				for _, c := range arr {
					cq := FromJSON(c.(map[string]any))
					switch k {
					case "must":
						q.Must = append(q.Must, cq)
					case "should":
						q.Should = append(q.Should, cq)
					default:
						q.Nots = append(q.Nots, cq)
					}
				}
			}
		}
	}
	return q
}
