package ctl

import (
	"context"
	"fmt"
	"github.com/blugelabs/bluge/search/aggregations"
	"runtime/debug"
	"sort"
	"strconv"
	"sync"

	"github.com/blugelabs/bluge"
	"github.com/blugelabs/bluge/index"
	"github.com/blugelabs/bluge/index/mergeplan"
	ice1 "github.com/blugelabs/ice"
	ice2 "github.com/blugelabs/ice/v2"
)

// Opts selects the configuration of the system under test.
type Opts struct {
	Path             string // directory path; "" = in-memory directory
	Unsafe           bool
	SegVersion       int // 1 or 2
	KeepN            int
	MinMemMerge      int    // MinSegmentsForInMemoryMerge; 0 = default (2)
	Merge            string // "none" | "eager2" | "eager3" | "default"
	Faults           []Fault
	NoMmap           bool
	IntroGates       bool // gate the introducer at the start of a persist swap / merge introduction
	NapUnderNumFiles int  // PersisterNapUnderNumFiles (0 = default 1000): small values make the persister wait for the merger
	ReuseBatch       bool // every caller re-uses one Batch object (Reset between calls)
	NoAsyncErr       bool // leave Config.AsyncError nil (the default of the public configuration)
}

// Sys is one incarnation of a writer under the controller.
type Sys struct {
	C   *Ctl
	O   Opts
	Dir *Dir
	W   *bluge.Writer
	Cfg bluge.Config

	mu        sync.Mutex
	curUID    map[string]int // client proc -> uid of the batch in flight
	segUID    map[uint64]int // segment id allocated by prepare -> uid
	pendKind  string
	pendSeg   uint64
	pendSkip  bool
	AsyncErrs int
	stop      chan struct{}
	iw        *index.Writer
	batches   map[string]*index.Batch
}

// Stop ends the harness-owned analysis workers.
func (s *Sys) Stop() { close(s.stop) }

var (
	curSysMu sync.Mutex
	curSys   *Sys
)

func init() {
	// ice v2 creates its global zstd coder (with channels) on first use; make
	// that happen outside any synctest bubble
	if c, err := ice2.ZSTDCompress(nil, []byte("warm up"), ice2.ZSTDCompressionLevel); err == nil {
		_, _ = ice2.ZSTDDecompress(nil, c)
	}
	index.VerifHook = func(ev string, w *index.Writer, args ...interface{}) {
		curSysMu.Lock()
		s := curSys
		curSysMu.Unlock()
		if s != nil {
			// only the writer opened on this system's directory wrapper is traced
			// (a second writer on the same path is a different object)
			mine := w != nil && w.VerifDirectory() == index.Directory(s.Dir)
			if mine {
				s.hook(ev, args...)
			}
		}
	}
}

// ClearSys detaches the hook from the last system.
func ClearSys() {
	curSysMu.Lock()
	curSys = nil
	curSysMu.Unlock()
}

func mergeOptions(mode string) mergeplan.Options {
	o := mergeplan.DefaultMergePlanOptions
	switch mode {
	case "none":
		o.CalcBudget = func(int64, int64, *mergeplan.Options) int { return 1 << 20 }
	case "eager2", "eager3":
		o.MaxSegmentsPerTier = 1
		o.SegmentsPerMergeTask = 2
		if mode == "eager3" {
			o.SegmentsPerMergeTask = 3
		}
		o.FloorSegmentSize = 1
		o.CalcBudget = func(int64, int64, *mergeplan.Options) int { return 1 }
	}
	return o
}

// BuildConfig creates the bluge configuration with all seams wrapped. It must
// be called inside the synctest bubble (it creates channels).
func NewSys(c *Ctl, o Opts) *Sys {
	s := &Sys{C: c, O: o, curUID: map[string]int{}, segUID: map[uint64]int{}}
	var inner index.Directory
	if o.Path == "" {
		inner = index.NewInMemoryDirectory()
	} else {
		fsd := index.NewFileSystemDirectory(o.Path)
		if o.NoMmap {
			fsd.SetLoadMMapFunc(index.LoadMMapNever)
		}
		inner = fsd
	}
	plug := ice1.Load
	if o.SegVersion == 2 {
		plug = ice2.Load
	}
	s.Dir = &Dir{C: c, Inner: inner, Path: o.Path, Plug: plug, Faults: o.Faults}
	cfg := bluge.DefaultConfigWithDirectory(func() index.Directory { return s.Dir })
	ic := cfg.VerifIndexConfig()
	if o.Unsafe {
		ic = ic.WithUnsafeBatches()
	}
	if o.SegVersion == 2 {
		ic = ic.WithSegmentType(ice2.Type).WithSegmentVersion(ice2.Version)
	}
	keep := o.KeepN
	if keep == 0 {
		keep = 1
	}
	ic.DeletionPolicyFunc = func() index.DeletionPolicy {
		return &Policy{C: c, Inner: index.NewKeepNLatestDeletionPolicy(keep)}
	}
	if o.MinMemMerge > 0 {
		ic.MinSegmentsForInMemoryMerge = o.MinMemMerge
	}
	if o.NapUnderNumFiles > 0 {
		ic.PersisterNapUnderNumFiles = o.NapUnderNumFiles
	}
	if o.Merge != "" && o.Merge != "default" {
		ic.MergePlanOptions = mergeOptions(o.Merge)
	}
	// analysis workers owned by the harness, so that a failed OpenWriter does
	// not leave goroutines behind in the bubble
	ic.NumAnalysisWorkers = 0
	s.stop = make(chan struct{})
	for i := 0; i < 2; i++ {
		ch := ic.AnalysisChan
		go func() {
			for {
				select {
				case <-s.stop:
					return
				case w := <-ch:
					w()
				}
			}
		}()
	}
	ic.EventCallback = s.onEvent
	if !o.NoAsyncErr {
		ic.AsyncError = func(err error) {
			s.mu.Lock()
			s.AsyncErrs++
			s.mu.Unlock()
			c.Log("AsyncError", "msg", err.Error())
		}
	}
	s.Cfg = cfg.VerifWithIndexConfig(ic)
	return s
}

func (s *Sys) onEvent(e index.Event) {
	switch e.Kind {
	case index.EventKindBatchIntroductionStart:
		s.C.GateAt("batch.prepare")
	case index.EventKindMergeTaskIntroductionStart:
		s.C.GateAt("merge.send")
	case index.EventKindPersisterProgress:
		s.C.Log("PProgress")
	case index.EventKindMergerProgress:
		s.C.Log("MProgress")
	case index.EventKindCloseStart:
		s.C.Log("CloseStart")
	}
}

// Open opens the writer (logs the recovery result).
func (s *Sys) Open() error {
	curSysMu.Lock()
	curSys = s
	curSysMu.Unlock()
	s.C.Log("OpenCall")
	w, err := bluge.OpenWriter(s.Cfg)
	if err != nil {
		s.C.Log("OpenReturn", "err", err.Error())
		return err
	}
	s.W = w
	s.C.Log("OpenReturn", "err", "")
	return nil
}

func (s *Sys) hook(ev string, args ...interface{}) {
	c := s.C
	switch ev {
	case "batch.prepared":
		id := args[0].(uint64)
		root := args[1].(*index.Snapshot)
		proc := c.Proc()
		s.mu.Lock()
		uid := s.curUID[proc]
		s.segUID[id] = uid
		s.mu.Unlock()
		ids := []uint64{}
		for _, vs := range root.VerifSegs() {
			ids = append(ids, vs.ID)
		}
		c.Log("Prepared", "c", proc, "uid", uid, "seg", id, "rootEpoch", root.VerifEpoch(), "rootSegs", ids)
		c.GateAt("batch.send")
	case "intro.persist.begin":
		if s.O.IntroGates {
			c.GateAt("intro.persist")
		}
	case "intro.merge.begin":
		if s.O.IntroGates {
			c.GateAt("intro.merge")
		}
	case "intro.batch":
		s.mu.Lock()
		s.pendKind, s.pendSeg = "batch", args[0].(uint64)
		s.mu.Unlock()
	case "intro.persist":
		s.mu.Lock()
		s.pendKind = "persist"
		s.mu.Unlock()
	case "intro.merge":
		s.mu.Lock()
		s.pendKind, s.pendSeg, s.pendSkip = "merge", args[0].(uint64), args[1].(bool)
		s.mu.Unlock()
	case "root.replace":
		snap := args[0].(*index.Snapshot)
		s.mu.Lock()
		kind, seg, skip := s.pendKind, s.pendSeg, s.pendSkip
		s.pendKind = ""
		uid := s.segUID[seg]
		s.mu.Unlock()
		if snap == nil {
			c.Log("RootNil")
			return
		}
		if kind == "" {
			kind = "load"
		}
		epoch, ents := c.ProjectSnapshot(snap)
		switch kind {
		case "batch":
			c.Log("IntroBatch", "uid", uid, "seg", seg, "epoch", epoch, "ents", ents)
		case "merge":
			c.Log("IntroMerge", "seg", seg, "skipped", skip, "epoch", epoch, "ents", ents)
		case "persist":
			c.Log("IntroPersist", "epoch", epoch, "ents", ents)
		default:
			c.Log("RootLoad", "epoch", epoch, "ents", ents)
		}
	case "persist.grab":
		snap := args[0].(*index.Snapshot)
		var epoch uint64
		if snap != nil {
			epoch = snap.VerifEpoch()
		}
		c.Log("PGrab", "epoch", epoch, "nacks", args[1].(int), "ncbs", args[2].(int))
	case "persist.result":
		snap := args[0].(*index.Snapshot)
		var msg string
		if err, _ := args[1].(error); err != nil {
			msg = err.Error()
		}
		c.Log("PResult", "epoch", snap.VerifEpoch(), "err", msg)
		c.GateAt("persist.result")
	case "merge.wake":
		snap := args[0].(*index.Snapshot)
		c.Log("MWake", "epoch", snap.VerifEpoch())
		c.GateAt("merge.plan")
	case "merge.task":
		task := args[1].(*mergeplan.MergeTask)
		ids := []uint64{}
		for _, sg := range task.Segments {
			ids = append(ids, sg.ID())
		}
		c.Log("MergeTask", "seg", args[0].(uint64), "old", ids, "mem", false)
	case "memmerge.task":
		snap := args[1].(*index.Snapshot)
		idx := args[2].([]int)
		segs := snap.VerifSegs()
		ids := []uint64{}
		for _, i := range idx {
			ids = append(ids, segs[i].ID)
		}
		c.Log("MergeTask", "seg", args[0].(uint64), "old", ids, "mem", true)
	}
}

// Op is one operation of a batch.
type Op struct {
	Kind string `json:"kind"` // upd | ins | del
	ID   string `json:"id"`
}

// MakeBatch builds the real batch for uid with the given operations. Every
// document stores its id, the uid and its position so that each version of a
// document is distinguishable.
func MakeBatch(uid int, ops []Op) (*index.Batch, []string, []string) {
	return MakeBatchInto(bluge.NewBatch(), uid, ops)
}

// MakeBatchInto fills a batch that may have been used (and Reset) before.
func MakeBatchInto(b *index.Batch, uid int, ops []Op) (*index.Batch, []string, []string) {
	dels, adds := []string{}, []string{}
	k := 0
	for _, op := range ops {
		switch op.Kind {
		case "del":
			b.Delete(bluge.Identifier(op.ID))
			dels = append(dels, op.ID)
		case "upd", "ins":
			k++
			d := bluge.NewDocument(op.ID).
				AddField(bluge.NewKeywordField("u", strconv.Itoa(uid)).StoreValue().Sortable()).
				AddField(bluge.NewKeywordField("k", strconv.Itoa(k)).StoreValue()).
				AddField(bluge.NewKeywordField("tag", op.ID+"."+strconv.Itoa(uid)).StoreValue()).
				AddField(bluge.NewKeywordField("Title", "t-"+op.ID).StoreValue()). // a name that sorts before _id
				AddField(bluge.NewTextField("body", "w"+op.ID+" common v"+strconv.Itoa(uid)))
			if op.Kind == "upd" {
				b.Update(bluge.Identifier(op.ID), d)
				dels = append(dels, op.ID)
			} else {
				b.Insert(d)
			}
			adds = append(adds, op.ID)
		}
	}
	return b, dels, adds
}

// DoBatch performs one client call: Invoke event, the real Batch, Return event.
func (s *Sys) DoBatch(proc string, uid int, ops []Op, withCallback bool) error {
	var b *index.Batch
	var dels, adds []string
	if s.O.ReuseBatch {
		// one Batch object per caller, Reset between calls (the documented way to avoid allocations)
		s.mu.Lock()
		if s.batches == nil {
			s.batches = map[string]*index.Batch{}
		}
		b = s.batches[proc]
		if b == nil {
			b = bluge.NewBatch()
			s.batches[proc] = b
		}
		s.mu.Unlock()
		b.Reset()
		b, dels, adds = MakeBatchInto(b, uid, ops)
	} else {
		b, dels, adds = MakeBatch(uid, ops)
	}
	if withCallback {
		b.SetPersistedCallback(func(err error) {
			s.C.Log("Callback", "uid", uid, "err", errStr(err))
		})
	}
	s.mu.Lock()
	s.curUID[proc] = uid
	s.mu.Unlock()
	s.C.LogP(proc, "Invoke", "c", proc, "uid", uid, "del", dels, "add", adds, "cb", withCallback)
	err := s.W.Batch(b)
	s.C.LogP(proc, "Return", "c", proc, "uid", uid, "err", errStr(err), "safe", !s.O.Unsafe)
	return err
}

// Obs is what a reader shows through the public API.
// DictEnt is one entry of a dictionary scan.
type DictEnt struct {
	T string `json:"t"`
	N int    `json:"n"`
}

type Obs struct {
	Count  int       `json:"count"`
	Docs   []Doc     `json:"docs"`   // match-all enumeration with stored fields
	ByID   []Doc     `json:"byid"`   // union of per-id term lookups
	Dict   []DictEnt `json:"dict"`   // dictionary scan of field _id (deep observations only)
	Fields []string  `json:"fields"` // Reader.Fields(), sorted copy (deep observations only)
	None   []Doc     `json:"none"`   // match-all with scoring switched off (the unadorned iterators), deep observations only
	Agg    int       `json:"agg"`    // count aggregation of that search
	Sorted []Doc     `json:"sorted"` // doc values: sorted by u
	Err    string    `json:"err"`
}

// ErrObs is an observation that failed as a whole (no nil slices: the trace reader rejects JSON null).
func ErrObs(msg string) Obs {
	return Obs{Docs: []Doc{}, ByID: []Doc{}, Dict: []DictEnt{}, Sorted: []Doc{}, Fields: []string{}, None: []Doc{}, Err: msg}
}

func sortDocs(d []Doc) {
	sort.Slice(d, func(i, j int) bool {
		if d[i].ID != d[j].ID {
			return d[i].ID < d[j].ID
		}
		if d[i].UID != d[j].UID {
			return d[i].UID < d[j].UID
		}
		return d[i].K < d[j].K
	})
}

func docOf(r *bluge.Reader, num uint64) Doc {
	var d Doc
	_ = r.VisitStoredFields(num, func(field string, value []byte) bool {
		switch field {
		case "_id":
			d.ID = string(value)
		case "u":
			d.UID, _ = strconv.Atoi(string(value))
		case "k":
			d.K, _ = strconv.Atoi(string(value))
		}
		return true
	})
	return d
}

// Observe reads everything a reader exposes, through the public API only.
func Observe(r *bluge.Reader, ids []string, deep bool) (o Obs) {
	// a read of a prematurely unmapped file must become a result, not the end of the driver
	defer debug.SetPanicOnFault(debug.SetPanicOnFault(true))
	defer func() {
		if p := recover(); p != nil {
			o.Err = fmt.Sprintf("panic: %v", p)
		}
	}()
	o.Docs, o.ByID, o.Dict, o.Sorted, o.Fields, o.None = []Doc{}, []Doc{}, []DictEnt{}, []Doc{}, []string{}, []Doc{}
	n, err := r.Count()
	if err != nil {
		o.Err = err.Error()
		return
	}
	o.Count = int(n)
	it, err := r.Search(context.Background(), bluge.NewAllMatches(bluge.NewMatchAllQuery()))
	if err != nil {
		o.Err = err.Error()
		return
	}
	for m, err := it.Next(); m != nil || err != nil; m, err = it.Next() {
		if err != nil {
			o.Err = err.Error()
			return
		}
		o.Docs = append(o.Docs, docOf(r, m.Number))
	}
	sortDocs(o.Docs)
	for _, id := range ids {
		it, err := r.Search(context.Background(), bluge.NewAllMatches(bluge.NewTermQuery(id).SetField("_id")))
		if err != nil {
			o.Err = err.Error()
			return
		}
		for m, err := it.Next(); m != nil || err != nil; m, err = it.Next() {
			if err != nil {
				o.Err = err.Error()
				return
			}
			o.ByID = append(o.ByID, docOf(r, m.Number))
		}
	}
	sortDocs(o.ByID)
	if !deep {
		return
	}
	// sorted by the doc value of u (descending), exercising document values
	req := bluge.NewTopNSearch(1000, bluge.NewMatchAllQuery()).SortBy([]string{"-u", "_id"})
	it, err = r.Search(context.Background(), req)
	if err != nil {
		o.Err = err.Error()
		return
	}
	for m, err := it.Next(); m != nil || err != nil; m, err = it.Next() {
		if err != nil {
			o.Err = err.Error()
			return
		}
		o.Sorted = append(o.Sorted, docOf(r, m.Number))
	}
	// the same documents with scoring switched off (other iterators: no frequencies, no norms) and a count aggregation
	nreq := bluge.NewTopNSearch(1000, bluge.NewMatchAllQuery()).SetScore("none").SortBy([]string{"_id"})
	nreq.AddAggregation("n", aggregations.CountMatches())
	it, err = r.Search(context.Background(), nreq)
	if err != nil {
		o.Err = err.Error()
		return
	}
	for m, err := it.Next(); m != nil || err != nil; m, err = it.Next() {
		if err != nil {
			o.Err = err.Error()
			return
		}
		o.None = append(o.None, docOf(r, m.Number))
	}
	o.Agg = int(it.Aggregations().Metric("n"))
	// the field list (a copy, sorted: the order in which segments contribute is not part of the answer)
	if fs, ferr := r.Fields(); ferr != nil {
		o.Err = ferr.Error()
		return
	} else {
		o.Fields = append(o.Fields, fs...)
		sort.Strings(o.Fields)
	}
	// dictionary scan of the identifier field (includes ids whose documents are only marked deleted)
	di, err := r.DictionaryIterator("_id", nil, nil, nil)
	if err != nil {
		o.Err = err.Error()
		return
	}
	defer di.Close()
	for e, err := di.Next(); e != nil || err != nil; e, err = di.Next() {
		if err != nil {
			o.Err = err.Error()
			return
		}
		o.Dict = append(o.Dict, DictEnt{T: e.Term(), N: int(e.Count())})
	}
	return
}

func (s *Sys) Close() error {
	s.C.Log("CloseCall")
	err := s.W.Close()
	s.C.Log("CloseReturn", "err", errStr(err))
	return err
}
