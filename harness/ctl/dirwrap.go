package ctl

import (
	"bufio"
	"bytes"
	"encoding/binary"
	"encoding/json"
	"errors"
	"fmt"
	"hash/crc32"
	"io"
	"os"
	"path/filepath"
	"runtime/debug"
	"sort"
	"strconv"
	"sync"

	"github.com/RoaringBitmap/roaring"
	"github.com/blugelabs/bluge/index"
	segment "github.com/blugelabs/bluge_segment_api"
)

// Doc identifies one document version: id, uid of the batch that wrote it,
// position inside that batch.
type Doc struct {
	ID  string
	UID int
	K   int
}

func (d Doc) MarshalJSON() ([]byte, error) {
	return []byte(fmt.Sprintf("[%q,%d,%d]", d.ID, d.UID, d.K)), nil
}

func (d *Doc) UnmarshalJSON(b []byte) error {
	var raw []json.RawMessage
	if err := json.Unmarshal(b, &raw); err != nil || len(raw) != 3 {
		return fmt.Errorf("bad doc %s", b)
	}
	if err := json.Unmarshal(raw[0], &d.ID); err != nil {
		return err
	}
	if err := json.Unmarshal(raw[1], &d.UID); err != nil {
		return err
	}
	return json.Unmarshal(raw[2], &d.K)
}

// ProjectSegment reads the identity of every document of a segment from its
// stored fields.
func ProjectSegment(seg segment.Segment) (rv []Doc) {
	// reading a segment whose file was unmapped too early must become a result
	// (a document that cannot be read), not the end of the driver
	defer debug.SetPanicOnFault(debug.SetPanicOnFault(true))
	defer func() {
		if p := recover(); p != nil {
			rv = append(rv, Doc{ID: "unreadable", UID: -1, K: -1})
		}
	}()
	n := seg.Count()
	rv = make([]Doc, 0, n)
	for i := uint64(0); i < n; i++ {
		var d Doc
		_ = seg.VisitStoredFields(i, func(field string, value []byte) bool {
			switch field {
			case "_id":
				d.ID = string(value)
			case "u":
				d.UID, _ = strconv.Atoi(string(value))
			case "k":
				d.K, _ = strconv.Atoi(string(value))
			}
			return true
		})
		rv = append(rv, d)
	}
	return rv
}

// Ent is the projection of one (segment, deleted) entry of a snapshot.
type Ent struct {
	ID   uint64   `json:"id"`
	Docs []Doc    `json:"docs"`
	Del  []uint32 `json:"del"` // 1-based positions, like the specification
	Pers bool     `json:"pers"`
	H    int      `json:"h"` // handle number of the loaded file (0 = in memory)
}

func bitmapPositions(b *roaring.Bitmap) []uint32 {
	rv := []uint32{}
	if b == nil {
		return rv
	}
	it := b.Iterator()
	for it.HasNext() {
		rv = append(rv, it.Next()+1)
	}
	return rv
}

// ProjectSnapshot projects a snapshot to the specification's root form.
func (c *Ctl) ProjectSnapshot(s *index.Snapshot) (uint64, []Ent) {
	if s == nil {
		return 0, []Ent{}
	}
	segs := s.VerifSegs()
	ents := make([]Ent, 0, len(segs))
	for _, vs := range segs {
		h := 0
		if hc, ok := vs.Closer.(*handleCloser); ok {
			h = hc.h
		}
		ents = append(ents, Ent{ID: vs.ID, Docs: ProjectSegment(vs.Segment), Del: bitmapPositions(vs.Deleted), Pers: vs.Persisted, H: h})
	}
	return s.VerifEpoch(), ents
}

// SnpEnt is one segment entry of a snapshot file.
type SnpEnt struct {
	ID  uint64   `json:"id"`
	Del []uint32 `json:"del"`
}

// ParseSnapshotFile decodes the bytes of a snapshot file (format version 1).
func ParseSnapshotFile(b []byte) ([]SnpEnt, error) {
	if len(b) < 4 {
		return nil, errors.New("short")
	}
	body := b[:len(b)-4]
	if crc32.ChecksumIEEE(body) != binary.BigEndian.Uint32(b[len(b)-4:]) {
		return nil, errors.New("crc")
	}
	br := bufio.NewReader(bytes.NewReader(body))
	ver, err := binary.ReadUvarint(br)
	if err != nil || ver != 1 {
		return nil, errors.New("version")
	}
	n, err := binary.ReadUvarint(br)
	if err != nil {
		return nil, err
	}
	rv := []SnpEnt{}
	for i := uint64(0); i < n; i++ {
		l, err := binary.ReadUvarint(br)
		if err != nil {
			return nil, err
		}
		if _, err = io.CopyN(io.Discard, br, int64(l)+4); err != nil {
			return nil, err
		}
		id, err := binary.ReadUvarint(br)
		if err != nil {
			return nil, err
		}
		dl, err := binary.ReadUvarint(br)
		if err != nil {
			return nil, err
		}
		e := SnpEnt{ID: id, Del: []uint32{}}
		if dl > 0 {
			db := make([]byte, dl)
			if _, err = io.ReadFull(br, db); err != nil {
				return nil, err
			}
			bm := roaring.New()
			if _, err = bm.FromBuffer(db); err != nil {
				return nil, err
			}
			e.Del = bitmapPositions(bm)
		}
		rv = append(rv, e)
	}
	return rv, nil
}

// Fault describes one injected failure of a directory operation.
type Fault struct {
	Op     int    `json:"op"`     // index of the directory operation (0-based, in begin order)
	Stage  string `json:"stage"`  // before | partial | after
	Sticky int    `json:"sticky"` // number of further operations of the same kind+id that fail too
}

var ErrInjected = errors.New("verif: injected I/O fault")

// Dir wraps an index.Directory: every operation is a gate and is logged.
type Dir struct {
	C     *Ctl
	Inner index.Directory
	Path  string // "" for the in-memory directory
	Plug  func(*segment.Data) (segment.Segment, error)

	mu      sync.Mutex
	opCount int
	handles int
	Faults  []Fault
	sticky  map[string]int
	// OnBoundary, if set, is called (on the acting goroutine) at operation
	// boundaries with a tag; used to take crash images.
	OnBoundary func(tag string, kind string, id uint64, content []byte)
}

func (d *Dir) nextOp(kind string, id uint64, name string) (int, string) {
	d.mu.Lock()
	defer d.mu.Unlock()
	n := d.opCount
	d.opCount++
	key := name + kind + strconv.FormatUint(id, 10)
	for _, f := range d.Faults {
		if f.Op == n {
			if f.Sticky > 0 {
				if d.sticky == nil {
					d.sticky = map[string]int{}
				}
				d.sticky[key] = f.Sticky
			}
			return n, f.Stage
		}
	}
	if d.sticky[key] > 0 {
		d.sticky[key]--
		return n, "before"
	}
	return n, ""
}

func (d *Dir) Setup(readOnly bool) error { return d.Inner.Setup(readOnly) }

func (d *Dir) List(kind string) ([]uint64, error) {
	n, stage := d.nextOp(kind, 0, "list")
	d.C.GateAt("dir.list")
	if stage != "" {
		d.C.Log("ListEnd", "op", n, "kind", kind, "err", "injected")
		return nil, ErrInjected
	}
	rv, err := d.Inner.List(kind)
	d.C.Log("ListEnd", "op", n, "kind", kind, "ids", u64s(rv), "err", errStr(err))
	return rv, err
}

func u64s(x []uint64) []uint64 {
	if x == nil {
		return []uint64{}
	}
	return x
}

func errStr(err error) string {
	if err == nil {
		return ""
	}
	return err.Error()
}

type teeWriterTo struct {
	inner index.WriterTo
	buf   bytes.Buffer
	stage string
	limit int
}

type limitWriter struct {
	w    io.Writer
	left int
}

func (l *limitWriter) Write(p []byte) (int, error) {
	if len(p) <= l.left {
		l.left -= len(p)
		return l.w.Write(p)
	}
	n, _ := l.w.Write(p[:l.left])
	l.left = 0
	return n, ErrInjected
}

func (t *teeWriterTo) WriteTo(w io.Writer, closeCh chan struct{}) (int64, error) {
	switch t.stage {
	case "partial":
		// first find out how long the item is, then write a prefix of it
		n, err := t.inner.WriteTo(&t.buf, closeCh)
		if err != nil {
			return n, err
		}
		k := t.buf.Len() / 2
		m, _ := w.Write(t.buf.Bytes()[:k])
		return int64(m), ErrInjected
	case "writeerr":
		// the destination itself fails after a few bytes; whatever the item writer makes of that is passed on unchanged
		return t.inner.WriteTo(&limitWriter{w: io.MultiWriter(w, &t.buf), left: 3}, closeCh)
	case "after":
		n, err := t.inner.WriteTo(io.MultiWriter(w, &t.buf), closeCh)
		if err != nil {
			return n, err
		}
		return n, ErrInjected
	}
	return t.inner.WriteTo(io.MultiWriter(w, &t.buf), closeCh)
}

func (d *Dir) Persist(kind string, id uint64, w index.WriterTo, closeCh chan struct{}) error {
	n, stage := d.nextOp(kind, id, "persist")
	d.C.GateAt("dir.persist" + kind)
	d.C.Log("PersistBegin", "op", n, "kind", kind, "id", id)
	if d.OnBoundary != nil {
		d.OnBoundary("before", kind, id, nil)
	}
	if stage == "before" {
		d.C.Log("PersistEnd", "op", n, "kind", kind, "id", id, "err", "injected", "stage", stage)
		return ErrInjected
	}
	t := &teeWriterTo{inner: w, stage: stage}
	err := d.Inner.Persist(kind, id, t, closeCh)
	kv := []any{"op", n, "kind", kind, "id", id, "err", errStr(err), "size", t.buf.Len()}
	if stage != "" {
		kv = append(kv, "stage", stage)
	}
	if err != nil && d.Path != "" {
		// the directory reported a failure: what is under the item's name now? (-1: nothing)
		left := int64(-1)
		if fi, serr := os.Stat(filepath.Join(d.Path, fmt.Sprintf("%012x%s", id, kind))); serr == nil {
			left = fi.Size()
		}
		kv = append(kv, "left", left)
	}
	if err == nil && d.Path == "" {
		// the in-memory directory keeps segments only and nothing durable
		kv = append(kv, "ents", []SnpEnt{}, "docs", []Doc{})
	} else if err == nil {
		if kind == index.ItemKindSnapshot {
			ents, perr := ParseSnapshotFile(t.buf.Bytes())
			if perr != nil {
				kv = append(kv, "parse", perr.Error())
				ents = []SnpEnt{}
			}
			kv = append(kv, "ents", ents)
		} else if d.Plug != nil {
			seg, lerr := d.Plug(segment.NewDataBytes(append([]byte(nil), t.buf.Bytes()...)))
			if lerr != nil {
				kv = append(kv, "parse", lerr.Error())
			} else {
				kv = append(kv, "docs", ProjectSegment(seg))
			}
		}
	}
	d.C.Log("PersistEnd", kv...)
	if d.OnBoundary != nil {
		d.OnBoundary("after", kind, id, t.buf.Bytes())
	}
	d.C.GateAt("dir.persisted" + kind)
	return err
}

type handleCloser struct {
	d     *Dir
	h     int
	kind  string
	id    uint64
	inner io.Closer
	once  sync.Once
	n     int
}

func (h *handleCloser) Close() error {
	h.d.mu.Lock()
	h.n++
	n := h.n
	h.d.mu.Unlock()
	var err error
	if h.inner != nil {
		err = h.inner.Close()
	}
	h.d.C.Log("HandleClose", "h", h.h, "kind", h.kind, "id", h.id, "n", n, "err", errStr(err))
	return err
}

func (d *Dir) Load(kind string, id uint64) (*segment.Data, io.Closer, error) {
	n, stage := d.nextOp(kind, id, "load")
	d.C.GateAt("dir.load" + kind)
	if stage != "" {
		d.C.Log("LoadEnd", "op", n, "kind", kind, "id", id, "err", "injected", "h", 0)
		return nil, nil, ErrInjected
	}
	data, closer, err := d.Inner.Load(kind, id)
	if err != nil {
		d.C.Log("LoadEnd", "op", n, "kind", kind, "id", id, "err", err.Error(), "h", 0)
		return data, closer, err
	}
	d.mu.Lock()
	d.handles++
	h := d.handles
	d.mu.Unlock()
	d.C.Log("LoadEnd", "op", n, "kind", kind, "id", id, "err", "", "h", h)
	return data, &handleCloser{d: d, h: h, kind: kind, id: id, inner: closer}, nil
}

func (d *Dir) Remove(kind string, id uint64) error {
	n, stage := d.nextOp(kind, id, "remove")
	d.C.GateAt("dir.remove" + kind)
	if stage != "" {
		d.C.Log("RemoveEnd", "op", n, "kind", kind, "id", id, "err", "injected")
		return ErrInjected
	}
	if d.OnBoundary != nil {
		d.OnBoundary("before", "rm"+kind, id, nil)
	}
	err := d.Inner.Remove(kind, id)
	d.C.Log("RemoveEnd", "op", n, "kind", kind, "id", id, "err", errStr(err))
	if d.OnBoundary != nil {
		d.OnBoundary("after", "rm"+kind, id, nil)
	}
	return err
}

func (d *Dir) Stats() (uint64, uint64) {
	d.C.GateAt("dir.stats")
	return d.Inner.Stats()
}

func (d *Dir) Sync() error { return d.Inner.Sync() }

func (d *Dir) Lock() error {
	err := d.Inner.Lock()
	d.C.Log("Lock", "err", errStr(err))
	return err
}

func (d *Dir) Unlock() error {
	err := d.Inner.Unlock()
	d.C.Log("Unlock", "err", errStr(err))
	return err
}

// ListFiles returns name -> size of the regular files of the directory.
func ListFiles(path string) map[string]int64 {
	rv := map[string]int64{}
	ents, err := os.ReadDir(path)
	if err != nil {
		return rv
	}
	for _, e := range ents {
		if fi, err := e.Info(); err == nil && fi.Mode().IsRegular() {
			rv[e.Name()] = fi.Size()
		}
	}
	return rv
}

// DirListing returns the sorted hexadecimal ids of the files of each kind.
func DirListing(path string) (snps, segs []uint64, other []string) {
	snps, segs, other = []uint64{}, []uint64{}, []string{}
	for name := range ListFiles(path) {
		ext := filepath.Ext(name)
		id, err := strconv.ParseUint(name[:len(name)-len(ext)], 16, 64)
		switch {
		case err == nil && ext == index.ItemKindSnapshot:
			snps = append(snps, id)
		case err == nil && ext == index.ItemKindSegment:
			segs = append(segs, id)
		default:
			other = append(other, name)
		}
	}
	sort.Slice(snps, func(i, j int) bool { return snps[i] < snps[j] })
	sort.Slice(segs, func(i, j int) bool { return segs[i] < segs[j] })
	sort.Strings(other)
	return
}

// Policy wraps the deletion policy so that commits and clean-ups are events.
type Policy struct {
	C     *Ctl
	Inner index.DeletionPolicy

	mu     sync.Mutex
	inside map[uint64]string // goroutine id -> what it is doing inside the policy
}

// enter notes that the calling goroutine is inside the policy; another goroutine being inside at the same time
// is logged (PolicyOverlap): the bundled policy is plain maps and slices and relies on having a single caller.
func (p *Policy) enter(what string) func() {
	id := Goid()
	p.mu.Lock()
	if p.inside == nil {
		p.inside = map[uint64]string{}
	}
	var others []string
	for g, w := range p.inside {
		if g != id {
			others = append(others, w)
		}
	}
	p.inside[id] = what
	p.mu.Unlock()
	if len(others) > 0 {
		p.C.Log("PolicyOverlap", "what", what, "others", others)
	}
	return func() {
		p.mu.Lock()
		delete(p.inside, id)
		p.mu.Unlock()
	}
}

func (p *Policy) Commit(s *index.Snapshot) {
	defer p.enter("Commit")()
	ids := []uint64{}
	for _, vs := range s.VerifSegs() {
		ids = append(ids, vs.ID)
	}
	p.Inner.Commit(s)
	p.C.Log("Commit", "epoch", s.VerifEpoch(), "segs", ids)
}

func (p *Policy) Cleanup(dir index.Directory) error {
	p.C.GateAt("policy.cleanup")
	defer p.enter("Cleanup")()
	p.C.Log("CleanupBegin")
	err := p.Inner.Cleanup(dir)
	p.C.Log("CleanupEnd", "err", errStr(err))
	return err
}
