// Package ctl is the controller that turns the real bluge index writer into a
// system whose schedule is an input: every interaction point is a gate, gates
// are released one at a time by a scheduler, and every step is logged as an
// ndjson event for validation against the TLA+ specification.
package ctl

import (
	"bytes"
	"encoding/json"
	"fmt"
	"os"
	"runtime"
	"sort"
	"strconv"
	"strings"
	"sync"
	"sync/atomic"
)

// Progress counts logged events and released gates of all controllers: the driver's real-time
// watchdog uses it to tell a livelock (goroutines spinning, so that synctest never sees
// quiescence) from slow progress.
var Progress atomic.Int64

// Event is one line of the trace.
type Event map[string]any

// Gate is a goroutine parked at an interaction point.
type Gate struct {
	Proc    string
	Name    string
	Key     string // proc + ":" + name, used by schedulers
	release chan struct{}
}

type Ctl struct {
	mu     sync.Mutex
	seq    int
	events []Event
	parked []*Gate

	Gating bool // gates block (controlled mode) or only log (free-running)

	ctlGoid uint64
	clients map[uint64]string // goid -> proc name for harness goroutines

	// NoGate lists gate names that never block.
	NoGate map[string]bool
}

func New(gating bool) *Ctl {
	return &Ctl{Gating: gating, clients: map[uint64]string{}, ctlGoid: Goid(), NoGate: map[string]bool{}}
}

// Goid returns the id of the calling goroutine.
func Goid() uint64 {
	var buf [64]byte
	n := runtime.Stack(buf[:], false)
	// "goroutine 123 [running]:"
	b := buf[:n]
	b = b[len("goroutine "):]
	i := bytes.IndexByte(b, ' ')
	id, _ := strconv.ParseUint(string(b[:i]), 10, 64)
	return id
}

// Register names the calling goroutine (clients, readers, closer).
func (c *Ctl) Register(proc string) {
	id := Goid()
	c.mu.Lock()
	c.clients[id] = proc
	c.mu.Unlock()
}

// Proc determines which process of the specification the calling goroutine is.
func (c *Ctl) Proc() string {
	id := Goid()
	c.mu.Lock()
	p, ok := c.clients[id]
	c.mu.Unlock()
	if ok {
		return p
	}
	if id == c.ctlGoid {
		return "ctl"
	}
	buf := make([]byte, 16384)
	n := runtime.Stack(buf, false)
	s := string(buf[:n])
	switch {
	case strings.Contains(s, ").persisterLoop"):
		p = "pers"
	case strings.Contains(s, ").mergerLoop"):
		p = "merg"
	case strings.Contains(s, ").introducerLoop"):
		p = "intro"
	case strings.Contains(s, "index.OpenWriter"):
		p = "open"
	default:
		p = "other"
	}
	if p != "other" && p != "open" {
		c.mu.Lock()
		c.clients[id] = p
		c.mu.Unlock()
	}
	return p
}

// Log appends an event; the sequence number is assigned under the controller lock.
func (c *Ctl) Log(ev string, kv ...any) {
	c.LogP(c.Proc(), ev, kv...)
}

func (c *Ctl) LogP(proc, ev string, kv ...any) {
	e := Event{"ev": ev, "proc": proc}
	for i := 0; i+1 < len(kv); i += 2 {
		e[kv[i].(string)] = kv[i+1]
	}
	Progress.Add(1)
	c.mu.Lock()
	c.seq++
	e["seq"] = c.seq
	c.events = append(c.events, e)
	c.mu.Unlock()
}

// GateAt parks the calling goroutine until the scheduler releases it.
func (c *Ctl) GateAt(name string) {
	if !c.Gating || c.NoGate[name] {
		return
	}
	id := Goid()
	if id == c.ctlGoid {
		return
	}
	proc := c.Proc()
	if proc == "open" || proc == "other" {
		return
	}
	g := &Gate{Proc: proc, Name: name, Key: proc + ":" + name, release: make(chan struct{})}
	c.mu.Lock()
	c.parked = append(c.parked, g)
	c.mu.Unlock()
	<-g.release
}

// Parked returns the currently parked gates in a deterministic order.
func (c *Ctl) Parked() []*Gate {
	c.mu.Lock()
	defer c.mu.Unlock()
	rv := append([]*Gate(nil), c.parked...)
	sort.SliceStable(rv, func(i, j int) bool { return rv[i].Key < rv[j].Key })
	return rv
}

func (c *Ctl) Release(g *Gate) {
	Progress.Add(1)
	c.mu.Lock()
	for i, p := range c.parked {
		if p == g {
			c.parked = append(c.parked[:i], c.parked[i+1:]...)
			break
		}
	}
	c.mu.Unlock()
	close(g.release)
}

func (c *Ctl) Events() []Event {
	c.mu.Lock()
	defer c.mu.Unlock()
	return append([]Event(nil), c.events...)
}

// CountEv counts the logged events with one of the given names.
func (c *Ctl) CountEv(names ...string) int {
	c.mu.Lock()
	defer c.mu.Unlock()
	n := 0
	for _, e := range c.events {
		for _, nm := range names {
			if e["ev"] == nm {
				n++
			}
		}
	}
	return n
}

// MergeWindow reports the process whose merge is in flight (a MergeTask event
// not yet followed by its IntroMerge) and the number of batches introduced
// since that merge was planned.
func (c *Ctl) MergeWindow() (proc string, batches int) {
	c.mu.Lock()
	defer c.mu.Unlock()
	for i := len(c.events) - 1; i >= 0; i-- {
		switch c.events[i]["ev"] {
		case "IntroMerge", "CloseCall":
			return "", 0
		case "IntroBatch":
			batches++
		case "MergeTask":
			p, _ := c.events[i]["proc"].(string)
			return p, batches
		}
	}
	return "", 0
}

// CountEvSince counts the events with one of the given names logged at or after position from.
func (c *Ctl) CountEvSince(from int, names ...string) int {
	c.mu.Lock()
	defer c.mu.Unlock()
	n := 0
	for _, e := range c.events[from:] {
		for _, nm := range names {
			if e["ev"] == nm {
				n++
			}
		}
	}
	return n
}

func (c *Ctl) NumEvents() int {
	c.mu.Lock()
	defer c.mu.Unlock()
	return len(c.events)
}

// WriteTrace appends the events as ndjson to w.
func WriteTrace(path string, evs []Event) error {
	f, err := os.OpenFile(path, os.O_CREATE|os.O_WRONLY|os.O_APPEND, 0o644)
	if err != nil {
		return err
	}
	defer f.Close()
	var buf bytes.Buffer
	for _, e := range evs {
		b, err := json.Marshal(e)
		if err != nil {
			return fmt.Errorf("marshal %v: %w", e, err)
		}
		buf.Write(b)
		buf.WriteByte('\n')
	}
	_, err = f.Write(buf.Bytes())
	return err
}
