// Package drivers runs scenarios against the real bluge writer under the
// controller and writes ndjson traces for TLC.
package drivers

import (
	"encoding/json"
	"fmt"
	"math/rand"
	"os"
	"path/filepath"
	"sort"
	"strings"
	"sync"
	"sync/atomic"
	"testing"
	"testing/synctest"

	"github.com/blugelabs/bluge"
	"verifharness/ctl"
)

// BatchSpec is one client call.
type BatchSpec struct {
	Ops []ctl.Op `json:"ops"`
	CB  bool     `json:"cb"`
}

// Scenario describes one controlled run.
type Scenario struct {
	Name         string        `json:"name"`
	Opts         ctl.Opts      `json:"opts"`
	Clients      [][]BatchSpec `json:"clients"`
	Readers      int           `json:"readers"` // reader goroutines
	ReaderRounds int           `json:"reader_rounds"`
	DoubleClose  bool          `json:"double_close"` // free-running only: a second goroutine calls Close at the same time (every Close that returns must leave a closed, unlocked index)
	Backup       bool          `json:"backup"`       // held readers are backed up (Reader.Backup) before they are closed; the restored copy must show the same
	Hammer       int           `json:"hammer"`       // > 0: the fresh reader taken after a root replacement (it IS the current root) is searched by that many goroutines at once
	Churn        int           `json:"churn"`        // free-running only: goroutines that do nothing but Reader()/Close() in parallel with the batches
	FreeReaders  int           `json:"free_readers"` // free-running only: goroutines that obtain readers in parallel with the batches and search each from 3 goroutines at once
	Images       bool          `json:"images"`
	Second       bool          `json:"second"` // attempt a second writer on the locked directory
	Ids          []string      `json:"ids"`
	NoClose      bool          `json:"no_close"`
	Free         bool          `json:"free"`         // free-running: gates never block, goroutines run in parallel; events are ordered by their sequence numbers
	MergeWindow  int           `json:"merge_window"` // hold a merge in flight until this many batches landed in its window
	RootObs      bool          `json:"root_obs"`     // observe a fresh reader after every root replacement
	CloseLast    bool          `json:"close_last"`   // Close is called only when nothing else can run (background work completes)
}

// Scheduler picks the next gate to release.
type Scheduler interface {
	Choose(step int, gates []*ctl.Gate) int
	Describe() any
}

// ---- seeded priority scheduler (PCT style) ----

type PrioSched struct {
	// LowProc is starved (chosen only when nothing else is parked) during
	// steps LowFrom..LowTo: lets work pile up for it.
	LowProc        string
	LowFrom, LowTo int
	Seed           int64
	rng            *rand.Rand
	prio           map[string]int
	changes        map[int]bool
	Picks          []string
}

func NewPrioSched(seed int64, nchanges, horizon int) *PrioSched {
	r := rand.New(rand.NewSource(seed))
	ch := map[int]bool{}
	for i := 0; i < nchanges; i++ {
		ch[r.Intn(horizon)] = true
	}
	return &PrioSched{Seed: seed, rng: r, prio: map[string]int{}, changes: ch}
}

func (p *PrioSched) Choose(step int, gates []*ctl.Gate) int {
	if p.changes[step] {
		p.prio = map[string]int{}
	}
	if p.LowProc != "" && step >= p.LowFrom && step <= p.LowTo {
		var idx []int
		for i, g := range gates {
			if g.Proc != p.LowProc {
				idx = append(idx, i)
			}
		}
		if len(idx) > 0 {
			bi := idx[p.rng.Intn(len(idx))]
			p.Picks = append(p.Picks, gates[bi].Key)
			return bi
		}
	}
	best, bi := -1, 0
	for i, g := range gates {
		pr, ok := p.prio[g.Proc]
		if !ok {
			pr = p.rng.Intn(1 << 20)
			p.prio[g.Proc] = pr
		}
		if pr > best {
			best, bi = pr, i
		}
	}
	// a little extra randomness: occasionally pick uniformly
	if p.rng.Intn(8) == 0 {
		bi = p.rng.Intn(len(gates))
	}
	p.Picks = append(p.Picks, gates[bi].Key)
	return bi
}

func (p *PrioSched) Describe() any {
	return map[string]any{"kind": "prio", "seed": p.Seed, "picks": p.Picks}
}

// ---- deviation scheduler: deterministic base order with chosen deviations ----

// DevSched follows a fixed base order (the order of proc names in Base, then
// key order) except at the steps listed in Dev, where it takes the alternative
// with the given index. Opts records, for each step, how many options there
// were, so that the caller can enumerate all deviations (delay-bounded DFS).
type DevSched struct {
	Base  []string
	Dev   map[int]int
	Opts  []int
	Picks []string
}

func (d *DevSched) rank(g *ctl.Gate) int {
	for i, p := range d.Base {
		if strings.HasPrefix(g.Key, p) {
			return i
		}
	}
	return len(d.Base)
}

func (d *DevSched) Choose(step int, gates []*ctl.Gate) int {
	idx := make([]int, len(gates))
	for i := range idx {
		idx[i] = i
	}
	sort.SliceStable(idx, func(a, b int) bool { return d.rank(gates[idx[a]]) < d.rank(gates[idx[b]]) })
	d.Opts = append(d.Opts, len(gates))
	k := 0
	if v, ok := d.Dev[step]; ok && v < len(gates) {
		k = v
	}
	d.Picks = append(d.Picks, gates[idx[k]].Key)
	return idx[k]
}

func (d *DevSched) Describe() any {
	return map[string]any{"kind": "dev", "base": d.Base, "dev": d.Dev, "picks": d.Picks}
}

// ---- replay of a recorded schedule ----

type ReplaySched struct {
	Want     []string
	Diverged int
	Picks    []string
}

func (r *ReplaySched) Choose(step int, gates []*ctl.Gate) int {
	k := 0
	if step < len(r.Want) {
		found := false
		for i, g := range gates {
			if g.Key == r.Want[step] {
				k, found = i, true
				break
			}
		}
		if !found {
			r.Diverged++
		}
	}
	r.Picks = append(r.Picks, gates[k].Key)
	return k
}

func (r *ReplaySched) Describe() any {
	return map[string]any{"kind": "replay", "diverged": r.Diverged, "picks": r.Picks}
}

// ---- the run ----

// Image is a copy of the directory at an operation boundary.
type Image struct {
	N       int    `json:"n"`
	Path    string `json:"path"`
	Tag     string `json:"tag"`
	Kind    string `json:"kind"`
	ID      uint64 `json:"id"`
	Variant string `json:"variant"`
	At      int    `json:"at"` // number of the Image event after which the result belongs
}

type RunResult struct {
	Events []ctl.Event
	Images []Image
	Stuck  bool
	Steps  int
	Sched  any
}

func copyDir(src, dst string) error {
	if err := os.MkdirAll(dst, 0o755); err != nil {
		return err
	}
	ents, err := os.ReadDir(src)
	if err != nil {
		return err
	}
	for _, e := range ents {
		if e.IsDir() || e.Name() == "bluge.pid" {
			continue
		}
		b, err := os.ReadFile(filepath.Join(src, e.Name()))
		if err != nil {
			return err
		}
		if err := os.WriteFile(filepath.Join(dst, e.Name()), b, 0o644); err != nil {
			return err
		}
	}
	return nil
}

type openReader struct {
	r    *bluge.Reader
	last string
	reps int
}

// Run executes the scenario once under the given scheduler. startDir, if not
// empty, is an existing directory (a crash image) to start from; uidBase is
// the number of uids already used in earlier incarnations.
// InRun is set while an execution is inside its synctest bubble (read by the watchdog of TestDrive).
var InRun atomic.Bool

func Run(t *testing.T, scn Scenario, sched Scheduler, workDir string, uidBase *int, evSink *[]ctl.Event) RunResult {
	var res RunResult
	var c *ctl.Ctl
	InRun.Store(true)
	defer InRun.Store(false)
	defer ctl.ClearSys()
	defer func() {
		// synctest panics when the bubble's root goroutine ends while other
		// goroutines are still durably blocked: that is a hang of the code
		// under test (Close did not terminate); record it instead of dying.
		if p := recover(); p != nil {
			if !strings.Contains(fmt.Sprint(p), "deadlock") {
				panic(p)
			}
			res.Stuck = true
			if c != nil {
				res.Events = c.Events()
				if len(res.Events) == 0 || res.Events[len(res.Events)-1]["ev"] != "Stuck" {
					res.Events = append(res.Events, ctl.Event{"ev": "Stuck", "proc": "ctl", "why": fmt.Sprint(p)})
				}
			}
			res.Sched = sched.Describe()
		}
	}()
	synctest.Test(t, func(t *testing.T) {
		c = ctl.New(!scn.Free)
		opts := scn.Opts
		s := ctl.NewSys(c, opts)
		var imgMu sync.Mutex
		imgN := 0
		imgRoot := workDir + ".img"
		if scn.Images && opts.Path != "" {
			var preDir string
			var preN int
			s.Dir.OnBoundary = func(tag, kind string, id uint64, content []byte) {
				imgMu.Lock()
				defer imgMu.Unlock()
				if tag == "before" {
					imgN++
					preDir = fmt.Sprintf("%s/%d-pre", imgRoot, imgN)
					_ = copyDir(opts.Path, preDir)
					c.Log("Image", "img", imgN, "tag", "before", "kind", kind, "id", id)
					preN = imgN
					res.Images = append(res.Images, Image{N: imgN, Path: preDir, Tag: "before", Kind: kind, ID: id, Variant: "boundary", At: imgN})
					return
				}
				// after: a boundary image, plus torn variants of the item on top of the pre-state
				imgN++
				post := fmt.Sprintf("%s/%d-post", imgRoot, imgN)
				_ = copyDir(opts.Path, post)
				c.Log("Image", "img", imgN, "tag", "after", "kind", kind, "id", id)
				res.Images = append(res.Images, Image{N: imgN, Path: post, Tag: "after", Kind: kind, ID: id, Variant: "boundary", At: imgN})
				if strings.HasPrefix(kind, "rm") || content == nil {
					return
				}
				name := fmt.Sprintf("%012x%s", id, kind)
				lens := tornLengths(kind, len(content))
				for _, L := range lens {
					imgN++
					d := fmt.Sprintf("%s/%d-torn%d", imgRoot, imgN, L)
					_ = copyDir(preDir, d)
					_ = os.WriteFile(filepath.Join(d, name), content[:L], 0o644)
					// the torn state belongs to the instant before the persist completed
					res.Images = append(res.Images, Image{N: imgN, Path: d, Tag: "torn", Kind: kind, ID: id, Variant: fmt.Sprintf("prefix%d", L), At: preN})
				}
				imgN++
				d := fmt.Sprintf("%s/%d-zero", imgRoot, imgN)
				_ = copyDir(preDir, d)
				_ = os.WriteFile(filepath.Join(d, name), make([]byte, len(content)), 0o644)
				res.Images = append(res.Images, Image{N: imgN, Path: d, Tag: "torn", Kind: kind, ID: id, Variant: "zero", At: preN})
			}
		}
		defer s.Stop()
		if err := s.Open(); err != nil {
			res.Events = c.Events()
			return
		}
		var wg sync.WaitGroup
		var uidMu sync.Mutex
		clientsDone := make(chan struct{})
		var cwg, churnWg sync.WaitGroup
		var stopChurn atomic.Bool
		for ci, batches := range scn.Clients {
			ci, batches := ci, batches
			proc := fmt.Sprintf("c%d", ci+1)
			wg.Add(1)
			cwg.Add(1)
			go func() {
				defer wg.Done()
				defer cwg.Done()
				c.Register(proc)
				for _, b := range batches {
					c.GateAt("client.invoke")
					uidMu.Lock()
					*uidBase++
					uid := *uidBase
					uidMu.Unlock()
					_ = s.DoBatch(proc, uid, b.Ops, b.CB)
				}
			}()
		}
		if scn.Free {
			// readers in real parallelism with the writers; they end before Close is called
			for fi := 0; fi < scn.FreeReaders; fi++ {
				proc := fmt.Sprintf("f%d", fi+1)
				wg.Add(1)
				cwg.Add(1)
				go func() {
					defer wg.Done()
					defer cwg.Done()
					c.Register(proc)
					for k := 0; k < 3; k++ {
						c.LogP(proc, "FReaderCall", "r", proc)
						r, err := s.W.Reader()
						if err != nil {
							c.LogP(proc, "FReaderOpen", "r", proc, "obs", ctl.ErrObs(err.Error()))
							return
						}
						o := ctl.Observe(r, scn.Ids, true)
						c.LogP(proc, "FReaderOpen", "r", proc, "obs", o)
						var swg sync.WaitGroup
						for j := 0; j < 3; j++ {
							swg.Add(1)
							go func() {
								defer swg.Done()
								o := ctl.Observe(r, scn.Ids, true)
								c.LogP(proc, "FReaderObs", "r", proc, "obs", o)
							}()
						}
						swg.Wait()
						c.LogP(proc, "FReaderClose", "r", proc)
						_ = r.Close()
					}
				}()
			}
		}
		if scn.Free {
			// nothing but Reader() / Close(), as fast as possible, while roots are being replaced
			for ci := 0; ci < scn.Churn; ci++ {
				wg.Add(1)
				churnWg.Add(1)
				go func() {
					defer wg.Done()
					defer churnWg.Done()
					c.Register(fmt.Sprintf("ch%d", ci+1))
					// as long as batches are being applied (at least 400 rounds, at most 200 000)
					for k := 0; k < 200000 && (k < 400 || !stopChurn.Load()); k++ {
						if r, err := s.W.Reader(); err == nil {
							_, _ = r.Count()
							_ = r.Close()
						}
					}
				}()
			}
		}
		go func() { cwg.Wait(); stopChurn.Store(true); churnWg.Wait(); close(clientsDone) }()

		var closing atomic.Bool
		readers := map[string]*openReader{}
		var rmu sync.Mutex
		rounds := scn.ReaderRounds
		if rounds == 0 {
			rounds = 1
		}
		for ri := 0; ri < scn.Readers; ri++ {
			proc := fmt.Sprintf("r%d", ri+1)
			wg.Add(1)
			go func() {
				defer wg.Done()
				c.Register(proc)
				for k := 0; k < rounds; k++ {
					c.GateAt("reader.open")
					if closing.Load() {
						return // no new readers from a closed writer
					}
					r, err := s.W.Reader()
					if err != nil {
						c.LogP(proc, "ReaderOpen", "r", proc, "err", err.Error())
						return
					}
					o := ctl.Observe(r, scn.Ids, true)
					js, _ := json.Marshal(o)
					c.LogP(proc, "ReaderOpen", "r", proc, "obs", o)
					rmu.Lock()
					readers[proc] = &openReader{r: r, last: string(js)}
					rmu.Unlock()
					c.GateAt("reader.close")
					rmu.Lock()
					or := readers[proc]
					delete(readers, proc)
					rmu.Unlock()
					o = ctl.Observe(r, scn.Ids, true)
					c.LogP(proc, "ReaderObs", "r", proc, "obs", o, "reps", or.reps, "final", true)
					if scn.Backup && scn.Opts.Path != "" {
						// Backup of a held (possibly superseded) reader while the writer goes on: the restored copy
						// holds the same segments and the same pending deletions, so it answers identically
						dst := fmt.Sprintf("%s.bak-%s-%d", scn.Opts.Path, proc, k)
						_ = os.MkdirAll(dst, 0o755) // Backup does not create its destination
						if err := r.Backup(dst, nil); err != nil {
							c.LogP(proc, "ReaderObs", "r", proc, "obs", ctl.ErrObs("backup: "+err.Error()), "reps", 0, "final", true, "backup", true)
						} else {
							SegVersion = scn.Opts.SegVersion
							if rd, err := bluge.OpenReader(cfgFor(dst, false)); err != nil {
								c.LogP(proc, "ReaderObs", "r", proc, "obs", ctl.ErrObs("restore: "+err.Error()), "reps", 0, "final", true, "backup", true)
							} else {
								ob := ctl.Observe(rd, scn.Ids, true)
								c.LogP(proc, "ReaderObs", "r", proc, "obs", ob, "reps", 0, "final", true, "backup", true)
								// a second backup into the same directory while the restored copy is open: it may be refused
								// (its files are in use) but must leave the open reader as it is
								_ = r.Backup(dst, nil)
								ob = ctl.Observe(rd, scn.Ids, true)
								_ = rd.Close()
								c.LogP(proc, "ReaderObs", "r", proc, "obs", ob, "reps", 0, "final", true, "backup", true)
							}
						}
						_ = os.RemoveAll(dst)
					}
					// the reader is not used any more from here on
					c.LogP(proc, "ReaderClose", "r", proc)
					err = r.Close()
					c.LogP(proc, "ReaderClosed", "r", proc, "err", fmt.Sprint(err))
				}
			}()
		}
		if scn.Second && opts.Path != "" {
			wg.Add(1)
			go func() {
				defer wg.Done()
				c.Register("w2")
				c.GateAt("second.open")
				cfg2 := bluge.DefaultConfig(opts.Path)
				ic2 := cfg2.VerifIndexConfig()
				ic2.NumAnalysisWorkers = 0 // a refused OpenWriter never stops its workers
				cfg2 = cfg2.VerifWithIndexConfig(ic2)
				w2, err := bluge.OpenWriter(cfg2)
				if err == nil {
					_ = w2.Close()
				}
				c.LogP("w2", "SecondOpen", "err", fmt.Sprint(err), "refused", err != nil)
				// a refused attempt must not have harmed the first writer's lock: try again
				c.GateAt("second.open")
				cfg3 := bluge.DefaultConfig(opts.Path)
				ic3 := cfg3.VerifIndexConfig()
				ic3.NumAnalysisWorkers = 0
				w3, err := bluge.OpenWriter(cfg3.VerifWithIndexConfig(ic3))
				if err == nil {
					_ = w3.Close()
				}
				c.LogP("w2", "SecondOpen", "err", fmt.Sprint(err), "refused", err != nil)
			}()
		}
		closed := make(chan struct{})
		wg.Add(1)
		go func() {
			defer wg.Done()
			defer close(closed)
			c.Register("closer")
			<-clientsDone
			c.GateAt("close.call")
			closing.Store(true)
			_ = s.Close()
		}()
		if scn.Free && scn.DoubleClose {
			wg.Add(1)
			go func() {
				defer wg.Done()
				c.Register("closer2")
				<-clientsDone
				closing.Store(true)
				_ = s.Close()
			}()
		}

		allDone := make(chan struct{})
		go func() { wg.Wait(); close(allDone) }()

		step := 0
		rootEvs := 0
		for {
			synctest.Wait()
			// observe all held readers at this quiescent point
			rmu.Lock()
			names := make([]string, 0, len(readers))
			for n := range readers {
				names = append(names, n)
			}
			sort.Strings(names)
			for _, n := range names {
				or := readers[n]
				o := ctl.Observe(or.r, scn.Ids, true)
				js, _ := json.Marshal(o)
				if string(js) != or.last {
					c.LogP(n, "ReaderObs", "r", n, "obs", o, "reps", or.reps, "final", false)
					or.last = string(js)
				} else {
					or.reps++
				}
			}
			rmu.Unlock()
			// a fresh reader after every root replacement, through the public API
			if scn.RootObs && !closing.Load() {
				if n := c.CountEv("IntroBatch", "IntroMerge", "IntroPersist"); n != rootEvs {
					rootEvs = n
					if scn.Hammer > 0 {
						c.LogP("ctl", "FReaderCall", "r", "h")
					}
					if r, err := s.W.Reader(); err == nil {
						o := ctl.Observe(r, scn.Ids, true)
						c.Log("RootObs", "obs", o)
						if scn.Hammer > 0 {
							// everything else is parked: this reader is the writer's current root (the case in which
							// the reader shares recycling pools with the writer); search it from several goroutines at once
							c.LogP("ctl", "FReaderOpen", "r", "h", "obs", o)
							var hwg sync.WaitGroup
							for j := 0; j < scn.Hammer; j++ {
								hwg.Add(1)
								go func() {
									defer hwg.Done()
									for k := 0; k < 2; k++ {
										o := ctl.Observe(r, scn.Ids, true)
										c.LogP("ctl", "FReaderObs", "r", "h", "obs", o)
									}
								}()
							}
							hwg.Wait()
							c.LogP("ctl", "FReaderClose", "r", "h")
						}
						_ = r.Close()
					}
				}
			}
			gs := c.Parked()
			if scn.Free && len(gs) == 0 {
				// nothing is gated: Wait() returned because everything finished or is durably blocked
				select {
				case <-allDone:
				default:
					res.Stuck = true
					c.Log("Stuck", "why", "free-running: blocked with work outstanding")
				}
				break
			}
			if len(gs) == 0 {
				select {
				case <-allDone:
				default:
					res.Stuck = true
					c.Log("Stuck")
				}
				break
			}
			if scn.MergeWindow > 0 {
				if mp, nb := c.MergeWindow(); mp != "" && nb < scn.MergeWindow {
					var gs2 []*ctl.Gate
					for _, g := range gs {
						if g.Proc != mp && g.Name != "close.call" {
							gs2 = append(gs2, g)
						}
					}
					if len(gs2) > 0 {
						gs = gs2
					}
				}
			}
			if scn.CloseLast && len(gs) > 1 {
				var gs2 []*ctl.Gate
				for _, g := range gs {
					if g.Name != "close.call" {
						gs2 = append(gs2, g)
					}
				}
				gs = gs2
			}
			i := sched.Choose(step, gs)
			step++
			c.Release(gs[i])
			if step > 5000 {
				res.Stuck = true
				c.Log("Stuck", "why", "step limit")
				// release everything so that the bubble can end
				c.Gating = false
				for _, g := range c.Parked() {
					c.Release(g)
				}
				break
			}
		}
		if res.Stuck {
			// let the bubble drain: stop gating and release
			c.Gating = false
			for _, g := range c.Parked() {
				c.Release(g)
			}
		}
		res.Steps = step
		res.Events = c.Events()
	})
	res.Sched = sched.Describe()
	return res
}

func tornLengths(kind string, n int) []int {
	rv := []int{}
	if kind == ".snp" || n <= 64 {
		for i := 0; i < n; i++ {
			rv = append(rv, i)
		}
		return rv
	}
	seen := map[int]bool{}
	for _, k := range []int{0, 1, 4, 16, n / 4, n / 2, 3 * n / 4, n - 20, n - 4, n - 1} {
		if k >= 0 && k < n && !seen[k] {
			seen[k] = true
			rv = append(rv, k)
		}
	}
	sort.Ints(rv)
	return rv
}
