package drivers

import (
	"bufio"
	"encoding/json"
	"fmt"
	"github.com/blugelabs/bluge/index/mergeplan"
	"os"
	"os/exec"
	"runtime/debug"
	"strings"

	"github.com/blugelabs/bluge"
	"github.com/blugelabs/bluge/index"
	ice2 "github.com/blugelabs/ice/v2"
	"verifharness/ctl"
)

// ReopenResult is what really happened when an image was opened.
type ReopenResult struct {
	N     int       `json:"n"`
	Mode  string    `json:"mode"`
	Start bool      `json:"start,omitempty"`
	Died  bool      `json:"died"`
	Err   string    `json:"err"`
	Docs  []ctl.Doc `json:"docs"`
	Docs2 []ctl.Doc `json:"docs2,omitempty"`
	Has2  bool      `json:"has2"`
	Note  string    `json:"note,omitempty"`
	Obs   *ctl.Obs  `json:"obs,omitempty"` // the full first observation (count, match-all, per-id lookups)
}

// SegVersion is the segment format the images were written with.
var SegVersion = 1

func cfgFor(path string, nommap bool) bluge.Config {
	cfg := bluge.DefaultConfigWithDirectory(func() index.Directory {
		d := index.NewFileSystemDirectory(path)
		if nommap {
			d.SetLoadMMapFunc(index.LoadMMapNever)
		}
		return d
	})
	if SegVersion == 2 {
		cfg = cfg.WithSegmentType(ice2.Type).WithSegmentVersion(ice2.Version)
	}
	return cfg
}

// reopenReader opens the image read-only and reads its content.
func reopenReader(path string, nommap bool, ids []string) (res ReopenResult) {
	defer func() {
		if p := recover(); p != nil {
			res.Died = true
			res.Note = fmt.Sprint(p)
		}
	}()
	debug.SetPanicOnFault(true)
	res.Docs = []ctl.Doc{}
	r, err := bluge.OpenReader(cfgFor(path, nommap))
	if err != nil {
		res.Err = err.Error()
		return
	}
	o := ctl.Observe(r, ids, false)
	_ = r.Close()
	if o.Err != "" {
		res.Err = "observe: " + o.Err
		if strings.HasPrefix(o.Err, "panic") {
			res.Died = true
		}
		return
	}
	res.Docs = o.Docs
	return
}

// reopenWriter opens a copy of the image with a real writer, reads the
// content, applies one more batch, closes and reads again.
func reopenWriter(path string, ids []string) (res ReopenResult) {
	defer func() {
		if p := recover(); p != nil {
			res.Died = true
			res.Note = fmt.Sprint(p)
		}
	}()
	debug.SetPanicOnFault(true)
	res.Docs = []ctl.Doc{}
	tmp := path + ".w"
	_ = os.RemoveAll(tmp)
	if err := copyDir(path, tmp); err != nil {
		res.Err = "harness: " + err.Error()
		return
	}
	defer os.RemoveAll(tmp)
	// no merges in the recovered writer: whether its first batch is accepted must not depend on a race with its merger
	wcfg := cfgFor(tmp, false)
	ic := wcfg.VerifIndexConfig()
	mo := mergeplan.DefaultMergePlanOptions
	mo.CalcBudget = func(int64, int64, *mergeplan.Options) int { return 1 << 20 }
	ic.MergePlanOptions = mo
	ic.MinSegmentsForInMemoryMerge = 1 << 20
	w, err := bluge.OpenWriter(wcfg.VerifWithIndexConfig(ic))
	if err != nil {
		res.Err = err.Error()
		return
	}
	r, err := w.Reader()
	if err != nil {
		res.Err = err.Error()
		_ = w.Close()
		return
	}
	o := ctl.Observe(r, ids, true)
	_ = r.Close()
	if o.Err != "" {
		res.Err = "observe: " + o.Err
		_ = w.Close()
		return
	}
	res.Docs = o.Docs
	res.Obs = &o
	b, _, _ := ctl.MakeBatch(9999, []ctl.Op{{Kind: "upd", ID: "zz"}})
	if err = w.Batch(b); err != nil {
		res.Err = "batch: " + err.Error()
		_ = w.Close()
		return
	}
	if err = w.Close(); err != nil {
		res.Err = "close: " + err.Error()
		return
	}
	r2, err := bluge.OpenReader(cfgFor(tmp, false))
	if err != nil {
		res.Err = "reopen: " + err.Error()
		return
	}
	o2 := ctl.Observe(r2, append(append([]string{}, ids...), "zz"), false)
	_ = r2.Close()
	res.Docs2 = o2.Docs
	res.Has2 = true
	return
}

// ChildMain processes the images listed in the input file.
func ChildMain(in, out string) error {
	var job struct {
		Images []Image  `json:"images"`
		Ids    []string `json:"ids"`
		Modes  []string `json:"modes"`
		SegVer int      `json:"segver"`
	}
	b, err := os.ReadFile(in)
	if err != nil {
		return err
	}
	if err = json.Unmarshal(b, &job); err != nil {
		return err
	}
	SegVersion = job.SegVer
	f, err := os.OpenFile(out, os.O_CREATE|os.O_WRONLY|os.O_APPEND, 0o644)
	if err != nil {
		return err
	}
	defer f.Close()
	emit := func(r ReopenResult) {
		jb, _ := json.Marshal(r)
		_, _ = f.Write(append(jb, '\n'))
	}
	for _, im := range job.Images {
		for _, mode := range job.Modes {
			emit(ReopenResult{N: im.N, Mode: mode, Start: true})
			var r ReopenResult
			switch mode {
			case "reader":
				r = reopenReader(im.Path, false, job.Ids)
			case "reader-nommap":
				r = reopenReader(im.Path, true, job.Ids)
			case "writer":
				r = reopenWriter(im.Path, job.Ids)
			}
			r.N, r.Mode = im.N, mode
			emit(r)
		}
	}
	return nil
}

// ReopenImages runs the child process (restarting it after a death) and
// returns the results per image.
func ReopenImages(images []Image, ids []string, modes []string, scratch string, segver int) (map[int][]ReopenResult, error) {
	rv := map[int][]ReopenResult{}
	rest := images
	for round := 0; len(rest) > 0 && round < 50; round++ {
		in, out := scratch+"/child.in.json", scratch+"/child.out.jsonl"
		_ = os.Remove(out)
		jb, _ := json.Marshal(map[string]any{"images": rest, "ids": ids, "modes": modes, "segver": segver})
		if err := os.WriteFile(in, jb, 0o644); err != nil {
			return rv, err
		}
		cmd := exec.Command(os.Args[0], "-test.run", "^TestChildReopen$", "-test.count", "1")
		cmd.Env = append(os.Environ(), "VERIF_CHILD_IN="+in, "VERIF_CHILD_OUT="+out)
		outb, cerr := cmd.CombinedOutput()
		f, err := os.Open(out)
		if err != nil {
			return rv, fmt.Errorf("child produced nothing: %v %s", cerr, outb)
		}
		sc := bufio.NewScanner(f)
		sc.Buffer(make([]byte, 1<<20), 1<<26)
		var last *ReopenResult
		done := map[int]int{}
		for sc.Scan() {
			var r ReopenResult
			if uerr := json.Unmarshal(sc.Bytes(), &r); uerr != nil {
				return rv, fmt.Errorf("harness: bad child line: %v", uerr)
			}
			if r.Start {
				rr := r
				last = &rr
				continue
			}
			last = nil
			rv[r.N] = append(rv[r.N], r)
			done[r.N]++
		}
		f.Close()
		if last != nil {
			// the child died while opening this image
			tail := string(outb)
			if len(tail) > 600 {
				tail = tail[len(tail)-600:]
			}
			rv[last.N] = append(rv[last.N], ReopenResult{N: last.N, Mode: last.Mode, Died: true, Docs: []ctl.Doc{}, Note: tail})
			done[last.N] = len(modes) // skip the remaining modes of this image
		}
		var next []Image
		for _, im := range rest {
			if done[im.N] < len(modes) {
				next = append(next, im)
			}
		}
		if last == nil && cerr != nil && len(next) > 0 {
			return rv, fmt.Errorf("child failed: %v %s", cerr, outb)
		}
		rest = next
	}
	return rv, nil
}
