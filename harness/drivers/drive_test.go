package drivers

import (
	"encoding/json"
	"fmt"
	"math/rand"
	"os"
	"runtime"
	"sort"
	"strconv"
	"strings"
	"testing"
	"time"

	"verifharness/ctl"
)

func envInt(name string, def int) int {
	if v := os.Getenv(name); v != "" {
		if n, err := strconv.Atoi(v); err == nil {
			return n
		}
	}
	return def
}

func TestChildReopen(t *testing.T) {
	in, out := os.Getenv("VERIF_CHILD_IN"), os.Getenv("VERIF_CHILD_OUT")
	if in == "" {
		t.Skip("child mode only")
	}
	if err := ChildMain(in, out); err != nil {
		t.Fatal(err)
	}
}

// TestDrive runs VERIF_RUNS scenarios of family VERIF_FAMILY and writes traces.
func TestDrive(t *testing.T) {
	out := os.Getenv("VERIF_OUT")
	if out == "" {
		t.Skip("VERIF_OUT not set")
	}
	fam := os.Getenv("VERIF_FAMILY")
	seed := int64(envInt("VERIF_SEED", 1))
	runs := envInt("VERIF_RUNS", 10)
	shard := envInt("VERIF_SHARD", 0)
	if err := os.MkdirAll(out, 0o755); err != nil {
		t.Fatal(err)
	}
	scratch, err := os.MkdirTemp("/dev/shm", "vdrive")
	if err != nil {
		t.Fatal(err)
	}
	defer os.RemoveAll(scratch)
	d := &Driver{T: t, Out: out, Scratch: scratch, Shard: shard, Rng: rand.New(rand.NewSource(seed*1000 + int64(shard)))}
	// Real-time watchdog (outside every bubble). A goroutine of the code under test that SPINS is never
	// durably blocked, so synctest cannot report the hang; executions normally take milliseconds, so no
	// logged event and no released gate for a long stretch of real time inside one execution is a livelock.
	// The process ends with exit code 77 and the goroutine stacks; the orchestrator decides what that means.
	limit := time.Duration(envInt("VERIF_WATCHDOG_S", 90)) * time.Second
	go func() {
		last, since := ctl.Progress.Load(), time.Now()
		for {
			time.Sleep(time.Second)
			if cur := ctl.Progress.Load(); cur != last || !InRun.Load() {
				last, since = cur, time.Now()
				continue
			}
			if time.Since(since) > limit {
				buf := make([]byte, 1<<20)
				n := runtime.Stack(buf, true)
				fmt.Printf("harness-watchdog: livelock: no event and no released gate for %v of real time inside one execution (run %d)\n%s\n",
					limit, d.Shard*100000+d.RunNo+1, buf[:n])
				os.Exit(77)
			}
		}
	}()
	d.RunFamily(fam, runs)
	d.Finish()
}

// Driver accumulates runs into trace files.
type Driver struct {
	T       *testing.T
	Out     string
	Scratch string
	Shard   int
	Rng     *rand.Rand
	RunNo   int
	Stats   map[string]int
	meta    []map[string]any
}

func (d *Driver) count(k string, n int) {
	if d.Stats == nil {
		d.Stats = map[string]int{}
	}
	d.Stats[k] += n
}

// Emit writes one run (one or several incarnations already concatenated).
func (d *Driver) Emit(scn Scenario, events []ctl.Event, sched any, extra map[string]any) {
	d.RunNo++
	keep := scn.Opts.KeepN
	if keep == 0 {
		keep = 1
	}
	runID := d.Shard*100000 + d.RunNo
	reset := ctl.Event{"ev": "Reset", "run": runID, "mem": scn.Opts.Path == "", "keep": keep, "scn": scn.Name, "free": scn.Free, "noasync": scn.Opts.NoAsyncErr}
	evs := append([]ctl.Event{reset}, events...)
	path := fmt.Sprintf("%s/trace-keep%d-s%d.ndjson", d.Out, keep, d.Shard)
	if err := ctl.WriteTrace(path, evs); err != nil {
		d.T.Fatal(err)
	}
	m := map[string]any{"run": runID, "scenario": scn, "sched": sched, "events": len(evs), "file": path}
	for k, v := range extra {
		m[k] = v
	}
	d.meta = append(d.meta, m)
	d.count("runs", 1)
	d.count("events", len(evs))
}

func (d *Driver) Finish() {
	f, err := os.OpenFile(fmt.Sprintf("%s/runs-s%d.jsonl", d.Out, d.Shard), os.O_CREATE|os.O_WRONLY|os.O_APPEND, 0o644)
	if err != nil {
		d.T.Fatal(err)
	}
	defer f.Close()
	for _, m := range d.meta {
		b, _ := json.Marshal(m)
		_, _ = f.Write(append(b, '\n'))
	}
	sb, _ := json.Marshal(d.Stats)
	_ = os.WriteFile(fmt.Sprintf("%s/stats-s%d.json", d.Out, d.Shard), sb, 0o644)
}

var allIds = []string{"a", "b", "c"}

// randomOps draws the operations of one batch; an id is named at most once
// per batch (naming it twice is the separate known-finding probe).
func randomOps(r *rand.Rand, ids []string, allowInsert bool) []ctl.Op {
	n := []int{0, 1, 1, 1, 2, 2, 3}[r.Intn(7)]
	perm := r.Perm(len(ids))
	if n > len(ids) {
		n = len(ids)
	}
	ops := []ctl.Op{}
	for i := 0; i < n; i++ {
		id := ids[perm[i]]
		k := r.Intn(10)
		switch {
		case k < 6:
			ops = append(ops, ctl.Op{Kind: "upd", ID: id})
		case k < 9 || !allowInsert:
			ops = append(ops, ctl.Op{Kind: "del", ID: id})
		default:
			ops = append(ops, ctl.Op{Kind: "ins", ID: id})
		}
	}
	return ops
}

func (d *Driver) randomScenario(name string, maxClients, maxBatches int, fsOnly bool) Scenario {
	r := d.Rng
	nc := 1 + r.Intn(maxClients)
	ids := allIds[:2+r.Intn(2)]
	scn := Scenario{Name: name, Ids: allIds, RootObs: true}
	for c := 0; c < nc; c++ {
		nb := 1 + r.Intn(maxBatches)
		var bs []BatchSpec
		for b := 0; b < nb; b++ {
			bs = append(bs, BatchSpec{Ops: randomOps(r, ids, true), CB: r.Intn(3) == 0})
		}
		scn.Clients = append(scn.Clients, bs)
	}
	scn.Opts = ctl.Opts{
		Unsafe:      r.Intn(3) == 0,
		SegVersion:  1 + r.Intn(2),
		KeepN:       1 + r.Intn(3),
		MinMemMerge: []int{0, 0, 2, 3, 100}[r.Intn(5)],
		Merge:       []string{"eager2", "eager3", "none", "default"}[r.Intn(4)],
		NoMmap:      r.Intn(5) == 0,
		ReuseBatch:  r.Intn(3) == 0,
	}
	if fsOnly || r.Intn(4) != 0 {
		scn.Opts.Path = "FS"
	}
	scn.Readers = r.Intn(3)
	scn.ReaderRounds = 1 + r.Intn(2)
	scn.Backup = r.Intn(3) == 0
	scn.Second = scn.Opts.Path != "" && r.Intn(3) == 0
	return scn
}

// prepare gives the scenario its own fresh directory.
func (d *Driver) prepare(scn *Scenario) string {
	work := fmt.Sprintf("%s/r%d", d.Scratch, d.RunNo+1)
	_ = os.RemoveAll(work)
	_ = os.MkdirAll(work, 0o755)
	if scn.Opts.Path != "" {
		scn.Opts.Path = work + "/idx"
	}
	return work
}

// reopenAfterClose opens the directory again right after Close.
func reopenAfterClose(scn Scenario) []ctl.Event {
	if scn.Opts.Path == "" {
		return nil
	}
	evs := []ctl.Event{}
	SegVersion = scn.Opts.SegVersion
	w := reopenWriter(scn.Opts.Path, scn.Ids)
	ev := ctl.Event{"ev": "Reopened", "mode": "writer", "err": w.Err, "docs": w.Docs, "died": w.Died}
	if w.Obs != nil {
		ev["obs"] = *w.Obs
	}
	evs = append(evs, ev)
	return evs
}

// spliceImages inserts the reopen results after the Image events.
func spliceImages(events []ctl.Event, images []Image, results map[int][]ReopenResult) []ctl.Event {
	at := map[int][]Image{}
	for _, im := range images {
		at[im.At] = append(at[im.At], im)
	}
	out := make([]ctl.Event, 0, len(events))
	for _, e := range events {
		out = append(out, e)
		if e["ev"] != "Image" {
			continue
		}
		n := e["img"].(int)
		for _, im := range at[n] {
			for _, r := range results[im.N] {
				ev := ctl.Event{"ev": "Recovered", "img": im.N, "variant": im.Variant, "tag": im.Tag, "kind": im.Kind, "id": im.ID,
					"mode": r.Mode, "died": r.Died, "err": r.Err, "docs": r.Docs, "note": r.Note}
				if r.Has2 {
					ev["docs2"] = r.Docs2
				}
				out = append(out, ev)
			}
		}
	}
	return out
}

func (d *Driver) runOne(scn Scenario, sched Scheduler) (RunResult, []ctl.Event) {
	work := d.prepare(&scn)
	uid := 0
	res := Run(d.T, scn, sched, work+"/w", &uid, nil)
	evs := res.Events
	if !res.Stuck {
		evs = append(evs, reopenAfterClose(scn)...)
	}
	if scn.Images && len(res.Images) > 0 {
		results, err := ReopenImages(res.Images, scn.Ids, []string{"reader", "writer"}, work, scn.Opts.SegVersion)
		if err != nil {
			d.T.Fatalf("harness: image reopen: %v", err)
		}
		evs = spliceImages(evs, res.Images, results)
		d.count("images", len(res.Images))
	}
	_ = os.RemoveAll(work)
	_ = os.RemoveAll(work + "/w.img")
	return res, evs
}

func (d *Driver) crumb(scn Scenario, sched any) {
	b, _ := json.Marshal(map[string]any{"scenario": scn, "sched": sched, "run": d.Shard*100000 + d.RunNo + 1})
	_ = os.WriteFile(fmt.Sprintf("%s/current-s%d.json", d.Out, d.Shard), b, 0o644)
}

func (d *Driver) simple(scn Scenario, sched Scheduler, extra map[string]any) RunResult {
	d.crumb(scn, sched.Describe())
	res, evs := d.runOne(scn, sched)
	m := map[string]any{"steps": res.Steps, "stuck": res.Stuck}
	for k, v := range extra {
		m[k] = v
	}
	if scn.Images {
		m["images"] = len(res.Images)
	}
	d.Emit(scn, evs, res.Sched, m)
	return res
}

// biasedOps concentrates deletes and updates on ids written recently, so that
// they land on the segments under merge.
func biasedOps(r *rand.Rand, ids []string, recent []string) []ctl.Op {
	ops := []ctl.Op{}
	seen := map[string]bool{}
	n := 1 + r.Intn(2)
	for i := 0; i < n; i++ {
		var id string
		if len(recent) > 0 && r.Intn(3) > 0 {
			id = recent[r.Intn(len(recent))]
		} else {
			id = ids[r.Intn(len(ids))]
		}
		if seen[id] {
			continue
		}
		seen[id] = true
		if r.Intn(2) == 0 {
			ops = append(ops, ctl.Op{Kind: "del", ID: id})
		} else {
			ops = append(ops, ctl.Op{Kind: "upd", ID: id})
		}
	}
	return ops
}

func (d *Driver) mergeScenario() Scenario {
	r := d.Rng
	scn := Scenario{Name: "merge", Ids: allIds, RootObs: true}
	nc := 1 + r.Intn(2)
	var recent []string
	for c := 0; c < nc; c++ {
		var bs []BatchSpec
		nb := 2 + r.Intn(3)
		for b := 0; b < nb; b++ {
			var ops []ctl.Op
			if b < 2 {
				// seed documents: two or three ids in one or two segments
				for _, id := range allIds[:2+r.Intn(2)] {
					if r.Intn(3) > 0 {
						ops = append(ops, ctl.Op{Kind: "upd", ID: id})
						recent = append(recent, id)
					}
				}
			} else {
				ops = biasedOps(r, allIds, recent)
			}
			bs = append(bs, BatchSpec{Ops: ops, CB: r.Intn(4) == 0})
		}
		scn.Clients = append(scn.Clients, bs)
	}
	scn.Opts = ctl.Opts{Path: "FS", Unsafe: r.Intn(2) == 0, SegVersion: 1 + r.Intn(2), KeepN: 1 + r.Intn(2),
		MinMemMerge: []int{2, 2, 3, 100}[r.Intn(4)], Merge: []string{"eager2", "eager3"}[r.Intn(2)]}
	if r.Intn(5) == 0 {
		scn.Opts.Path = ""
	}
	scn.Readers = r.Intn(2)
	scn.CloseLast = r.Intn(3) > 0
	scn.MergeWindow = r.Intn(3)
	return scn
}

func (d *Driver) faultRuns(runs int) { d.faultRunsOf(runs, "faults", "") }

// faultRunsOf: name "faults" = random scenarios, failures anywhere; "filefaults" / "mergefaults" = merge-heavy scenarios
// with KeepN 1..3, failures only on operations whose class contains classFilter (the removals of the clean-up /
// the merger's own operations)
func (d *Driver) faultRunsOf(runs int, name, classFilter string) {
	for i := 0; i < runs; {
		scn := d.randomScenario("faults", 2, 3, true)
		if name == "persfaults" {
			// several callers, no in-memory merges: the persister writes and re-loads several segments per round
			scn = d.randomScenario("persfaults", 1, 1, true)
			scn.Clients = nil
			for c := 0; c < 3+d.Rng.Intn(3); c++ {
				scn.Clients = append(scn.Clients, []BatchSpec{{Ops: randomOps(d.Rng, allIds, true)}, {Ops: randomOps(d.Rng, allIds, true), CB: d.Rng.Intn(2) == 0}})
			}
			scn.Opts.MinMemMerge, scn.Opts.Merge = 100, "none"
			scn.Readers = 0
		}
		if name == "memfaults" {
			// several callers and in-memory merges by the persister; failures on the persister's own writes
			scn = d.randomScenario("memfaults", 1, 1, true)
			scn.Clients = nil
			for c := 0; c < 3+d.Rng.Intn(3); c++ {
				scn.Clients = append(scn.Clients, []BatchSpec{{Ops: randomOps(d.Rng, allIds, true)}, {Ops: randomOps(d.Rng, allIds, true), CB: d.Rng.Intn(2) == 0}})
			}
			scn.Opts.MinMemMerge, scn.Opts.Merge = 2, "none"
			scn.Readers = 0
		}
		if name == "filefaults" || name == "mergefaults" {
			scn = d.mergeScenario()
			scn.Opts.Path = "FS"
			scn.Opts.KeepN = 1 + d.Rng.Intn(3)
			scn.Readers = d.Rng.Intn(2)
		}
		scn.Name = name
		scn.Second = false
		scn.Opts.NoAsyncErr = d.Rng.Intn(4) == 0 // the public configuration leaves the error callback nil
		scn.Opts.Unsafe = d.Rng.Intn(2) == 0
		if name == "faults" {
			scn.Opts.Merge = []string{"eager2", "none", "default"}[d.Rng.Intn(3)]
		}
		for ci := range scn.Clients {
			for bi := range scn.Clients[ci] {
				scn.Clients[ci][bi].CB = d.Rng.Intn(2) == 0
			}
		}
		seed := d.Rng.Int63()
		// fault-free run to learn the directory operations
		res := d.simple(scn, NewPrioSched(seed, 2, 100), map[string]any{"fault": "none"})
		i++
		nops := 0
		// the operations by class (who does what), so that rare ones (the merger's Persist, a Load, a List) are hit as often as the frequent ones
		classes := map[string][]int{}
		var classNames []string
		for _, e := range res.Events {
			if _, ok := e["op"]; ok {
				n := e["op"].(int)
				if n+1 > nops {
					nops = n + 1
				}
				ev, _ := e["ev"].(string)
				if n < 2 || ev == "PersistEnd" {
					continue
				}
				cl := fmt.Sprint(e["proc"], ":", ev, ":", e["kind"])
				if classFilter != "" && !strings.Contains(cl, classFilter) {
					continue
				}
				if _, ok := classes[cl]; !ok {
					classNames = append(classNames, cl)
				}
				classes[cl] = append(classes[cl], n)
			}
		}
		sort.Strings(classNames)
		// every placement would be nops*3 runs; take a seeded sample per scenario
		for k := 0; k < 6 && i < runs && nops > 2; k++ {
			op := 2 + d.Rng.Intn(nops-2)
			if classFilter != "" && len(classNames) == 0 {
				break
			}
			if (k%2 == 1 || classFilter != "") && len(classNames) > 0 {
				c := classes[classNames[d.Rng.Intn(len(classNames))]]
				op = c[d.Rng.Intn(len(c))]
			}
			f := ctl.Fault{Op: op, Stage: []string{"before", "partial", "after", "writeerr"}[d.Rng.Intn(4)]}
			if name == "faults" && k == 0 && d.Rng.Intn(2) == 0 {
				// a failure while the writer is being opened (listing snapshots / segments): OpenWriter returns the error and
				// must leave nothing behind -- the directory is opened again right afterwards
				f = ctl.Fault{Op: []int{0, 1, 1}[d.Rng.Intn(3)], Stage: "before"}
			}
			if d.Rng.Intn(3) == 0 {
				f.Sticky = 1 + d.Rng.Intn(2)
			}
			fs := scn
			fs.Opts.Faults = []ctl.Fault{f}
			if d.Rng.Intn(5) == 0 {
				fs.Opts.Faults = append(fs.Opts.Faults, ctl.Fault{Op: 2 + d.Rng.Intn(nops-2), Stage: "before"})
			}
			fs.Images = d.Rng.Intn(6) == 0
			if fs.Images {
				fs.Readers = 0
			}
			d.simple(fs, NewPrioSched(seed, 2, 100), map[string]any{"fault": f})
			i++
		}
	}
}

// reopenFault: a fault-free run that ends with Close, then a second writer on the same directory whose load of the
// (only) snapshot fails once: OpenWriter must report the failure -- or recover everything -- but never come up empty.
func (d *Driver) reopenFault() {
	scn := d.randomScenario("reopenfault", 2, 2, true)
	scn.Opts.KeepN, scn.Opts.NoAsyncErr = 1, false
	scn.Readers, scn.Second = 0, false
	work := d.prepare(&scn)
	uid := 0
	sched := NewPrioSched(d.Rng.Int63(), 2, 100)
	d.crumb(scn, sched.Describe())
	res1 := Run(d.T, scn, sched, work+"/w", &uid, nil)
	evs := res1.Events
	if res1.Stuck || len(evs) == 0 || evs[len(evs)-1]["ev"] != "CloseReturn" {
		d.Emit(scn, evs, res1.Sched, map[string]any{"stuck": res1.Stuck})
		_ = os.RemoveAll(work)
		return
	}
	scn2 := scn
	scn2.Clients = [][]BatchSpec{{{Ops: randomOps(d.Rng, allIds, true)}}}
	scn2.Opts.Faults = []ctl.Fault{{Op: 1, Stage: "before"}} // operation 0 lists the snapshots, operation 1 loads the newest
	sched2 := NewPrioSched(d.Rng.Int63(), 2, 100)
	res2 := Run(d.T, scn2, sched2, work+"/w2", &uid, nil)
	evs2 := res2.Events
	if !res2.Stuck && len(evs2) > 0 && evs2[len(evs2)-1]["ev"] == "CloseReturn" {
		evs2 = append(evs2, reopenAfterClose(scn2)...)
	}
	d.Emit(scn, append(evs, evs2...), map[string]any{"first": res1.Sched, "second": res2.Sched}, map[string]any{"second": scn2, "stuck": res2.Stuck})
	_ = os.RemoveAll(work)
}

// crash2: run, die at a seeded operation boundary (or torn state), recover on
// that image under the controller again, with images of the second incarnation.
func (d *Driver) crash2() {
	scn := d.randomScenario("crash2", 2, 2, true)
	scn.Images = true
	scn.Readers = 0
	scn.Second = false
	work := d.prepare(&scn)
	uid := 0
	sched := NewPrioSched(d.Rng.Int63(), 2, 100)
	d.crumb(scn, sched.Describe())
	res1 := Run(d.T, scn, sched, work+"/w", &uid, nil)
	if len(res1.Images) == 0 || res1.Stuck {
		d.Emit(scn, res1.Events, res1.Sched, map[string]any{"stuck": res1.Stuck})
		_ = os.RemoveAll(work)
		return
	}
	im := res1.Images[d.Rng.Intn(len(res1.Images))]
	// the part of the first incarnation that happened before the crash
	var pre []ctl.Event
	for _, e := range res1.Events {
		pre = append(pre, e)
		if e["ev"] == "Image" && e["img"].(int) == im.At {
			break
		}
	}
	pre = append(pre, ctl.Event{"ev": "Crash", "img": im.N, "variant": im.Variant, "tag": im.Tag, "kind": im.Kind, "id": im.ID})
	// second incarnation on a copy of the image
	scn2 := d.randomScenario("crash2", 2, 2, true)
	scn2.Opts = scn.Opts
	scn2.Images = true
	scn2.Readers = 0
	scn2.Second = false
	dir2 := work + "/idx2"
	_ = copyDir(im.Path, dir2)
	scn2.Opts.Path = dir2
	sched2 := NewPrioSched(d.Rng.Int63(), 2, 100)
	res2 := Run(d.T, scn2, sched2, work+"/w2", &uid, nil)
	evs2 := res2.Events
	if !res2.Stuck && len(evs2) > 0 && evs2[len(evs2)-1]["ev"] == "CloseReturn" {
		evs2 = append(evs2, reopenAfterClose(scn2)...)
	}
	if len(res2.Images) > 0 {
		results, err := ReopenImages(res2.Images, scn2.Ids, []string{"reader", "writer"}, work, scn2.Opts.SegVersion)
		if err != nil {
			d.T.Fatalf("harness: image reopen: %v", err)
		}
		evs2 = spliceImages(evs2, res2.Images, results)
		d.count("images", len(res2.Images))
	}
	d.Emit(scn, append(pre, evs2...), map[string]any{"first": res1.Sched, "second": res2.Sched},
		map[string]any{"crash_image": im, "second": scn2, "stuck": res2.Stuck})
	_ = os.RemoveAll(work)
}

// dfs: all single (and, if depth 2, double) deviations from deterministic base orders
func (d *Driver) dfs(scn Scenario, bases [][]string, depth int, budget int) {
	n := 0
	for _, base := range bases {
		first := &DevSched{Base: base, Dev: map[int]int{}}
		d.simple(scn, first, map[string]any{"dfs": "base"})
		n++
		opts := append([]int(nil), first.Opts...)
		for i, k := range opts {
			for a := 1; a < k; a++ {
				if n >= budget {
					return
				}
				s1 := &DevSched{Base: base, Dev: map[int]int{i: a}}
				d.simple(scn, s1, map[string]any{"dfs": fmt.Sprintf("%d:%d", i, a)})
				n++
				if depth >= 2 {
					o2 := append([]int(nil), s1.Opts...)
					for j := i + 1; j < len(o2); j++ {
						for b := 1; b < o2[j]; b++ {
							if n >= budget {
								return
							}
							d.simple(scn, &DevSched{Base: base, Dev: map[int]int{i: a, j: b}}, map[string]any{"dfs": fmt.Sprintf("%d:%d,%d:%d", i, a, j, b)})
							n++
						}
					}
				}
			}
		}
	}
}

func upd(id string) BatchSpec { return BatchSpec{Ops: []ctl.Op{{Kind: "upd", ID: id}}} }
func del(id string) BatchSpec { return BatchSpec{Ops: []ctl.Op{{Kind: "del", ID: id}}} }

func (d *Driver) RunFamily(fam string, runs int) {
	r := d.Rng
	switch fam {
	case "core", "":
		for i := 0; i < runs; i++ {
			scn := d.randomScenario("core", 3, 3, false)
			if i%10 == 7 {
				// many segments: one caller, a dozen batches, no merges (roots with more than ten segments, some of them
				// emptied completely by later batches)
				var bs []BatchSpec
				for b := 0; b < 12+r.Intn(3); b++ {
					bs = append(bs, BatchSpec{Ops: randomOps(r, allIds, true), CB: r.Intn(4) == 0})
				}
				scn.Clients = [][]BatchSpec{bs}
				scn.Opts.Merge, scn.Opts.MinMemMerge = "none", 100
			}
			if i%5 == 4 {
				// batch objects re-used after a delete-only (or empty) batch while another caller writes the same ids
				scn.Opts.ReuseBatch = true
				x, y := allIds[r.Intn(2)], allIds[2]
				first := []ctl.Op{{Kind: "del", ID: x}}
				if r.Intn(3) == 0 {
					first = []ctl.Op{}
				}
				scn.Clients = [][]BatchSpec{
					{{Ops: first}, {Ops: []ctl.Op{{Kind: "upd", ID: y}}}, {Ops: randomOps(r, allIds, true)}},
					{{Ops: []ctl.Op{{Kind: "upd", ID: x}}}, {Ops: randomOps(r, allIds, true)}},
				}
			}
			d.simple(scn, NewPrioSched(r.Int63(), 3, 120), nil)
		}
	case "dup":
		// the known-finding probe: one id named by two operations of one batch
		for i := 0; i < runs; i++ {
			scn := Scenario{Name: "dup-probe", Ids: allIds, Readers: 1,
				Opts:    ctl.Opts{Path: "FS", SegVersion: 1 + i%2, KeepN: 1, Merge: "none"},
				Clients: [][]BatchSpec{{{Ops: []ctl.Op{{Kind: "upd", ID: "a"}, {Kind: "upd", ID: "a"}}}}}}
			d.simple(scn, NewPrioSched(r.Int63(), 1, 50), nil)
		}
	case "images":
		for i := 0; i < runs; i++ {
			scn := d.randomScenario("images", 2, 2, true)
			scn.Images = true
			scn.Readers = 0
			scn.Second = false
			d.simple(scn, NewPrioSched(r.Int63(), 2, 100), nil)
		}
	case "memmerge":
		// several in-memory segments pile up behind a starved persister next to an
		// already persisted segment that receives deletes: the in-memory merge and
		// its equivalent snapshot, with crash images
		for i := 0; i < runs; i++ {
			scn := Scenario{Name: "memmerge", Ids: allIds, RootObs: true, Images: i%2 == 0, CloseLast: r.Intn(2) == 0, MergeWindow: r.Intn(3)}
			scn.Opts = ctl.Opts{Path: "FS", Unsafe: r.Intn(4) > 0, SegVersion: 1 + r.Intn(2), KeepN: 1 + r.Intn(2),
				MinMemMerge: 2, Merge: []string{"none", "none", "eager2"}[r.Intn(3)]}
			first := BatchSpec{Ops: []ctl.Op{{Kind: "upd", ID: "a"}, {Kind: "upd", ID: "b"}, {Kind: "upd", ID: "c"}}}
			nc := 2 + r.Intn(2)
			for c := 0; c < nc; c++ {
				var bs []BatchSpec
				if c == 0 {
					bs = append(bs, first)
				}
				for b := 0; b < 2+r.Intn(3); b++ {
					bs = append(bs, BatchSpec{Ops: biasedOps(r, allIds, []string{"a", "b", "c"}), CB: r.Intn(3) == 0})
				}
				scn.Clients = append(scn.Clients, bs)
			}
			ps := NewPrioSched(r.Int63(), 3, 150)
			ps.LowProc, ps.LowFrom, ps.LowTo = "pers", 8+r.Intn(20), 30+r.Intn(30)
			d.simple(scn, ps, nil)
		}
	case "crash2":
		for i := 0; i < runs; i++ {
			d.crash2()
		}
	case "readers":
		for i := 0; i < runs; i++ {
			scn := d.mergeScenario()
			scn.Name = "readers"
			scn.Opts.Path = "FS"
			if r.Intn(4) == 0 {
				scn.Opts.Path = "" // the in-memory directory keeps superseded segments alive by reference only
			}
			scn.Readers = 2 + r.Intn(2)
			scn.ReaderRounds = 2 + r.Intn(2)
			scn.Backup = r.Intn(2) == 0
			d.simple(scn, NewPrioSched(r.Int63(), 4, 150), nil)
		}
	case "conc":
		for i := 0; i < runs; i++ {
			scn := d.randomScenario("conc", 1, 1, false)
			nc := 2 + r.Intn(7)
			scn.Clients = nil
			for c := 0; c < nc; c++ {
				var bs []BatchSpec
				for b := 0; b < 1+r.Intn(2); b++ {
					bs = append(bs, BatchSpec{Ops: randomOps(r, allIds[:2], true), CB: r.Intn(4) == 0})
				}
				scn.Clients = append(scn.Clients, bs)
			}
			scn.Readers = 1 + r.Intn(2)
			scn.ReaderRounds = 2
			d.simple(scn, NewPrioSched(r.Int63(), 5, 200), nil)
		}
	case "dfs2":
		// two (three) clients, conflicting updates of one id: the window between
		// the optimistic prepare of one batch and its introduction
		depth := envInt("VERIF_DFS_DEPTH", 1)
		scn := Scenario{Name: "dfs2", Ids: allIds, Readers: 1,
			Opts:    ctl.Opts{Path: "FS", KeepN: 1, Merge: "none", MinMemMerge: 100, Unsafe: true},
			Clients: [][]BatchSpec{{upd("a"), del("a")}, {upd("a")}}}
		bases := [][]string{{"c1", "c2", "intro", "pers"}, {"c2", "c1", "pers"}, {"pers", "c1", "c2"}}
		if d.Shard < len(bases) {
			d.dfs(scn, bases[d.Shard:d.Shard+1], depth, runs*400)
		} else if d.Shard < 2*len(bases) {
			scn.Clients = [][]BatchSpec{{upd("a")}, {upd("a")}, {del("a"), upd("a")}}
			scn.Opts.Unsafe = false
			d.dfs(scn, bases[d.Shard-len(bases):d.Shard-len(bases)+1], depth, runs*400)
		}
	case "merge":
		for i := 0; i < runs; i++ {
			d.simple(d.mergeScenario(), NewPrioSched(r.Int63(), 4, 150), nil)
		}
	case "mergeimg":
		// file merges overlapped by batches (merge-window steering), with crash images: persisted roots whose
		// segments are not in id order, recovered and written to again
		for i := 0; i < runs; i++ {
			scn := d.mergeScenario()
			scn.Name = "mergeimg"
			scn.Opts.Path = "FS"
			scn.Images, scn.Readers, scn.Second = true, 0, false
			scn.MergeWindow = 1 + r.Intn(2)
			if i%3 == 0 {
				// two batches on other ids land (and stay alive) while the merge of the first two segments is in flight:
				// the persisted root is [4 5 3]-like, its last segment is neither the newest nor the one with the highest id
				scn.Ids = []string{"a", "b", "c", "d"}
				scn.Clients = [][]BatchSpec{{
					{Ops: []ctl.Op{{Kind: "upd", ID: "a"}}}, {Ops: []ctl.Op{{Kind: "upd", ID: "b"}}},
					{Ops: []ctl.Op{{Kind: "upd", ID: "c"}}}, {Ops: []ctl.Op{{Kind: "upd", ID: "d"}}},
					{Ops: randomOps(r, allIds, true)},
				}}
				scn.Opts.Merge, scn.Opts.MinMemMerge, scn.MergeWindow, scn.CloseLast = "eager2", 100, 2, true
			}
			d.simple(scn, NewPrioSched(r.Int63(), 4, 150), nil)
		}
	case "files":
		for i := 0; i < runs; i++ {
			scn := d.mergeScenario()
			scn.Name = "files"
			scn.Opts.Path = "FS"
			scn.Opts.KeepN = 1 + r.Intn(3)
			scn.Readers = r.Intn(3)
			scn.ReaderRounds = 1 + r.Intn(2)
			scn.Second = r.Intn(2) == 0
			d.simple(scn, NewPrioSched(r.Int63(), 4, 150), nil)
		}
	case "faults":
		nr := runs / 8
		for i := 0; i < nr; i++ {
			d.reopenFault()
		}
		d.faultRuns(runs - nr)
	case "filefaults":
		d.faultRunsOf(runs, "filefaults", "RemoveEnd")
	case "memfaults":
		d.faultRunsOf(runs, "memfaults", "pers:PersistBegin")
	case "persfaults":
		// failures only on the persister's re-loading of the segments it has just written
		d.faultRunsOf(runs, "persfaults", "pers:LoadEnd")
	case "mergefaults":
		// merge-heavy scenarios, failures only on the merger's own directory operations (Persist / Load of the merged segment)
		d.faultRunsOf(runs, "mergefaults", "merg:")
	case "close":
		for i := 0; i < runs; i++ {
			scn := d.mergeScenario()
			scn.Name = "close"
			scn.CloseLast = false
			if r.Intn(2) == 0 {
				scn.Hammer = 4 + r.Intn(8)
			}
			scn.Opts.Path = "FS"
			scn.Opts.IntroGates = r.Intn(2) == 0
			if r.Intn(2) == 0 {
				// the persister paces itself against the merger (its catch-up wait loop)
				scn.Opts.NapUnderNumFiles = 1 + r.Intn(3)
			}
			scn.Opts.Unsafe = r.Intn(3) > 0
			d.simple(scn, NewPrioSched(r.Int63(), 5, 100), nil)
		}
	case "free":
		// real parallelism: no gates; reader observations are tied to no particular
		// point of the order, so only writers, the persister / merger and Close are exercised
		for i := 0; i < runs; i++ {
			scn := d.mergeScenario()
			scn.Name = "free"
			scn.Free, scn.RootObs, scn.Readers, scn.Second, scn.MergeWindow = true, false, 0, false, 0
			scn.Opts.Path = "FS"
			scn.FreeReaders = r.Intn(4)
			scn.Churn = r.Intn(2) * (1 + r.Intn(6))
			scn.DoubleClose = r.Intn(3) == 0
			nc := 2 + r.Intn(5)
			scn.Clients = nil
			for c := 0; c < nc; c++ {
				var bs []BatchSpec
				for b := 0; b < 1+r.Intn(3); b++ {
					bs = append(bs, BatchSpec{Ops: randomOps(r, allIds, true), CB: r.Intn(3) == 0})
				}
				scn.Clients = append(scn.Clients, bs)
			}
			d.simple(scn, NewPrioSched(r.Int63(), 1, 10), nil)
		}
	case "replay":
		var m struct {
			Scenario Scenario `json:"scenario"`
			Sched    struct {
				Picks []string `json:"picks"`
			} `json:"sched"`
		}
		b, err := os.ReadFile(os.Getenv("VERIF_REPLAY"))
		if err != nil {
			d.T.Fatal(err)
		}
		if err = json.Unmarshal(b, &m); err != nil {
			d.T.Fatal(err)
		}
		if m.Scenario.Opts.Path != "" {
			m.Scenario.Opts.Path = "FS"
		}
		d.simple(m.Scenario, &ReplaySched{Want: m.Sched.Picks}, nil)
	default:
		d.T.Fatalf("unknown family %q", fam)
	}
}
