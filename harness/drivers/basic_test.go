package drivers

import (
	"encoding/json"
	"fmt"
	"os"
	"testing"

	"verifharness/ctl"
)

func TestBasic(t *testing.T) {
	dir, _ := os.MkdirTemp("/dev/shm", "vbasic")
	defer os.RemoveAll(dir)
	scn := Scenario{
		Name: "basic",
		Opts: ctl.Opts{Path: dir + "/idx", Merge: "eager2"},
		Clients: [][]BatchSpec{
			{{Ops: []ctl.Op{{Kind: "upd", ID: "a"}}}, {Ops: []ctl.Op{{Kind: "upd", ID: "b"}}}, {Ops: []ctl.Op{{Kind: "del", ID: "a"}}}},
		},
		Readers: 1,
		Ids:     []string{"a", "b"},
	}
	uid := 0
	res := Run(t, scn, NewPrioSched(1, 3, 100), dir+"/w", &uid, nil)
	for _, e := range res.Events {
		b, _ := json.Marshal(e)
		fmt.Println(string(b))
	}
	fmt.Println("steps", res.Steps, "stuck", res.Stuck)
}
