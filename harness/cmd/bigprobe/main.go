// bigprobe: the same abstract index as everywhere else, at a size where internal buffers, chunks and bitmap
// containers overflow (thousands of documents per segment, thousands of pending deletions). Operations are logged
// as id ranges and observations as counts plus sampled lookups; spec/BigIndexTrace.tla keeps the abstract set.
package main

import (
	"context"
	"encoding/json"
	"flag"
	"fmt"
	"math/rand"
	"os"

	"github.com/blugelabs/bluge"
	"github.com/blugelabs/bluge/index"
	ice2 "github.com/blugelabs/ice/v2"
)

var enc *json.Encoder

func name(i int) string { return fmt.Sprintf("x%06d", i) }

func doc(i, ver int) *bluge.Document {
	return bluge.NewDocument(name(i)).
		AddField(bluge.NewKeywordField("v", fmt.Sprint(ver)).StoreValue()).
		AddField(bluge.NewTextField("body", fmt.Sprintf("w%d common", i%17)))
}

func cfg(path string, segv int) bluge.Config {
	c := bluge.DefaultConfig(path)
	if segv == 2 {
		c = c.VerifWithIndexConfig(c.VerifIndexConfig().WithSegmentType(ice2.Type).WithSegmentVersion(ice2.Version))
	}
	return c
}

func errS(err error) string {
	if err == nil {
		return ""
	}
	return err.Error()
}

// observe: count and lookups of sampled ids
func observe(where string, r *bluge.Reader, oerr error, sample []int) {
	if oerr != nil {
		_ = enc.Encode(map[string]any{"ev": "bigobs", "where": where, "err": oerr.Error(), "count": 0, "present": []int{}, "absent": []int{}})
		return
	}
	n, err := r.Count()
	present, absent := []int{}, []int{}
	for _, i := range sample {
		if err != nil {
			break
		}
		it, serr := r.Search(context.Background(), bluge.NewAllMatches(bluge.NewTermQuery(name(i)).SetField("_id")))
		if serr != nil {
			err = serr
			break
		}
		k := 0
		for m, e := it.Next(); m != nil || e != nil; m, e = it.Next() {
			if e != nil {
				err = e
				break
			}
			k++
		}
		if k == 1 {
			present = append(present, i)
		} else if k == 0 {
			absent = append(absent, i)
		} else {
			err = fmt.Errorf("id %d found %d times", i, k)
		}
	}
	_ = enc.Encode(map[string]any{"ev": "bigobs", "where": where, "err": errS(err), "count": int(n), "present": present, "absent": absent})
}

func apply(w *bluge.Writer, kind string, lo, hi, step, ver int) {
	b := index.NewBatch()
	for i := lo; i <= hi; i += step {
		switch kind {
		case "ins":
			b.Insert(doc(i, ver))
		case "upd":
			d := doc(i, ver)
			b.Update(d.ID(), d)
		case "del":
			b.Delete(bluge.Identifier(name(i)))
		}
	}
	err := w.Batch(b)
	_ = enc.Encode(map[string]any{"ev": "bigop", "kind": kind, "lo": lo, "hi": hi, "step": step, "err": errS(err)})
}

func one(r *rand.Rand, run, n, segv int) {
	path, err := os.MkdirTemp("/dev/shm", "bigprobe")
	if err != nil {
		panic(err)
	}
	defer os.RemoveAll(path)
	_ = enc.Encode(map[string]any{"ev": "bigreset", "run": run, "n": n, "segv": segv})
	w, err := bluge.OpenWriter(cfg(path, segv))
	if err != nil {
		panic("harness: " + err.Error())
	}
	sample := []int{0, 1, 2, n - 1, n - 2, n / 2}
	for k := 0; k < 14; k++ {
		sample = append(sample, r.Intn(n))
	}
	apply(w, "ins", 0, n-1, 1, 1)                   // one big segment
	apply(w, "del", r.Intn(2), n-1, 2, 0)           // every other document: thousands of scattered pending deletions
	apply(w, "upd", r.Intn(5), n-1, 5+r.Intn(3), 2) // some of them come back, some live ones are replaced
	apply(w, "del", n/3, n/3+999, 1, 0)             // a dense block
	rd, err := w.Reader()
	observe("writer", rd, err, sample)
	if err == nil {
		_ = rd.Close()
	}
	err = w.Close()
	_ = enc.Encode(map[string]any{"ev": "bigclose", "err": errS(err)})
	rd, err = bluge.OpenReader(cfg(path, segv))
	observe("reader", rd, err, sample)
	if err == nil {
		_ = rd.Close()
	}
	w, err = bluge.OpenWriter(cfg(path, segv))
	if err != nil {
		observe("reopened", nil, err, sample)
		return
	}
	apply(w, "ins", n, n, 1, 3) // the recovered writer accepts further batches
	rd, err = w.Reader()
	observe("reopened", rd, err, append(sample, n))
	if err == nil {
		_ = rd.Close()
	}
	_ = w.Close()
}

func main() {
	out := flag.String("out", "", "ndjson output")
	tier := flag.String("tier", "quick", "quick|thorough")
	seed := flag.Int64("seed", 1, "seed")
	flag.Parse()
	f, err := os.Create(*out)
	if err != nil {
		panic(err)
	}
	defer f.Close()
	enc = json.NewEncoder(f)
	r := rand.New(rand.NewSource(*seed))
	sizes := []int{6000, 9000}
	if *tier == "thorough" {
		sizes = []int{1200, 4100, 6000, 9000, 20000, 70000}
	}
	run := 0
	for _, n := range sizes {
		for segv := 1; segv <= 2; segv++ {
			run++
			one(r, run, n, segv)
		}
	}
	fmt.Println("runs", run)
}
