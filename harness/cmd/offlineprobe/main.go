// offlineprobe drives the real OfflineWriter over the logging directory wrapper and
// writes one ndjson trace (validated by spec/OfflineTrace.tla against spec/Offline.tla):
// every Persist / Load / Remove / handle close of the offline build, the inserted documents,
// the result of Close, the directory listing afterwards and what OpenReader then shows.
package main

import (
	"context"
	"flag"
	"fmt"
	"math/rand"
	"os"
	"strconv"

	"github.com/blugelabs/bluge"
	"github.com/blugelabs/bluge/index"
	ice1 "github.com/blugelabs/ice"
	ice2 "github.com/blugelabs/ice/v2"

	"verifharness/ctl"
)

var scratch string

func doc(i int) *bluge.Document {
	return bluge.NewDocument("d" + strconv.Itoa(i)).
		AddField(bluge.NewKeywordField("u", strconv.Itoa(i)).StoreValue().Sortable()).
		AddField(bluge.NewKeywordField("k", "1").StoreValue()).
		AddField(bluge.NewTextField("body", "w"+strconv.Itoa(i%7)+" common"))
}

type runSpec struct {
	N, BS, SegV int
	Fault       int // index of the directory operation that fails; -1: none
	Stage       string
}

func one(c *ctl.Ctl, run int, rs runSpec) {
	path, err := os.MkdirTemp(scratch, "off")
	if err != nil {
		panic(err)
	}
	defer os.RemoveAll(path)
	plug := ice1.Load
	if rs.SegV == 2 {
		plug = ice2.Load
	}
	var faults []ctl.Fault
	if rs.Fault >= 0 {
		faults = []ctl.Fault{{Op: rs.Fault, Stage: rs.Stage}}
	}
	dir := &ctl.Dir{C: c, Inner: index.NewFileSystemDirectory(path), Path: path, Plug: plug, Faults: faults}
	cfg := bluge.DefaultConfigWithDirectory(func() index.Directory { return dir })
	rcfg := bluge.DefaultConfig(path)
	if rs.SegV == 2 {
		cfg = cfg.VerifWithIndexConfig(cfg.VerifIndexConfig().WithSegmentType(ice2.Type).WithSegmentVersion(ice2.Version))
		rcfg = rcfg.VerifWithIndexConfig(rcfg.VerifIndexConfig().WithSegmentType(ice2.Type).WithSegmentVersion(ice2.Version))
	}
	c.Log("Reset", "run", run, "n", rs.N, "bs", rs.BS, "segv", rs.SegV, "fault", rs.Fault, "stage", rs.Stage, "mergemax", 10)
	ow, err := bluge.OpenOfflineWriter(cfg, rs.BS, 10)
	if err != nil {
		c.Log("OOpenErr", "err", err.Error())
		return
	}
	failed := false
	for i := 1; i <= rs.N && !failed; i++ {
		c.Log("OInsert", "d", ctl.Doc{ID: "d" + strconv.Itoa(i), UID: i, K: 1})
		if err = ow.Insert(doc(i)); err != nil {
			c.Log("OInsertErr", "err", err.Error())
			failed = true
		}
	}
	c.Log("OCloseCall")
	err = ow.Close()
	es := ""
	if err != nil {
		es = err.Error()
	}
	c.Log("OCloseReturn", "err", es)
	snps, segs, _ := ctl.DirListing(path)
	if snps == nil {
		snps = []uint64{}
	}
	if segs == nil {
		segs = []uint64{}
	}
	c.Log("OListing", "snps", snps, "segs", segs)
	rd, err := bluge.OpenReader(rcfg)
	if err != nil {
		c.Log("OReopened", "err", err.Error(), "docs", []ctl.Doc{}, "count", 0)
		return
	}
	defer rd.Close()
	docs := []ctl.Doc{}
	it, err := rd.Search(context.Background(), bluge.NewAllMatches(bluge.NewMatchAllQuery()))
	if err == nil {
		for m, e := it.Next(); m != nil && e == nil; m, e = it.Next() {
			var d ctl.Doc
			_ = m.VisitStoredFields(func(field string, value []byte) bool {
				switch field {
				case "_id":
					d.ID = string(value)
				case "u":
					d.UID, _ = strconv.Atoi(string(value))
				case "k":
					d.K, _ = strconv.Atoi(string(value))
				}
				return true
			})
			docs = append(docs, d)
		}
	}
	n, _ := rd.Count()
	es = ""
	if err != nil {
		es = err.Error()
	}
	c.Log("OReopened", "err", es, "docs", docs, "count", int(n))
}

func main() {
	out := flag.String("out", "", "ndjson output")
	tier := flag.String("tier", "quick", "quick|thorough")
	seed := flag.Int64("seed", 1, "seed")
	flag.Parse()
	var err error
	scratch, err = os.MkdirTemp("/dev/shm", "offprobe")
	if err != nil {
		scratch, _ = os.MkdirTemp("", "offprobe")
	}
	defer os.RemoveAll(scratch)
	r := rand.New(rand.NewSource(*seed))
	c := ctl.New(false)
	run := 0
	ns := []int{0, 1, 2, 3, 9, 10, 11, 12, 19, 20, 21, 30, 31}
	bss := []int{0, 1, 2, 9, 100}
	if *tier == "thorough" {
		ns = append(ns, 40, 55, 99, 100, 101, 111, 121, 200)
		bss = append(bss, 3, 10, 11)
	}
	// fault-free builds: every (documents, batch size), both segment formats
	var ops [][3]int
	for _, n := range ns {
		for _, bs := range bss {
			run++
			before := c.NumEvents()
			one(c, run, runSpec{N: n, BS: bs, SegV: 1 + run%2, Fault: -1})
			ops = append(ops, [3]int{n, bs, c.CountEvSince(before, "PersistBegin", "LoadEnd", "RemoveEnd")})
		}
	}
	// EVERY directory operation of some small builds fails once (Offline.tla's Fail action at every step):
	// quick: 2 builds, failure before the operation; thorough: 12 builds, before and half-way
	exN, exBS, exStages := []int{3, 11}, []int{0}, []string{"before"}
	if *tier == "thorough" {
		exN, exBS, exStages = []int{1, 2, 3, 11, 12, 21}, []int{0, 1}, []string{"before", "partial"}
	}
	for _, n := range exN {
		for _, bs := range exBS {
			nops := 0
			for _, o := range ops {
				if o[0] == n && o[1] == bs {
					nops = o[2]
				}
			}
			for k := 0; k < nops; k++ {
				for _, st := range exStages {
					run++
					one(c, run, runSpec{N: n, BS: bs, SegV: 1 + run%2, Fault: k, Stage: st})
				}
			}
		}
	}
	// one injected failure at a sampled directory operation of a sampled build
	nf := 60
	if *tier == "thorough" {
		nf = 600
	}
	for i := 0; i < nf; i++ {
		o := ops[r.Intn(len(ops))]
		if o[2] == 0 {
			continue
		}
		run++
		one(c, run, runSpec{N: o[0], BS: o[1], SegV: 1 + run%2, Fault: r.Intn(o[2]), Stage: []string{"before", "partial", "after"}[r.Intn(3)]})
	}
	if err := ctl.WriteTrace(*out, c.Events()); err != nil {
		panic(err)
	}
	fmt.Println("runs", run)
}
