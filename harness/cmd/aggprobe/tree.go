// Generated aggregation trees (event "aggtree"): random requests over all aggregation kinds with
// plain and FILTERED value sources, bucket aggregations nested to depth 2, several consumers of one
// field in one request. The request is logged next to the reported results (same shape) and the
// matched documents; Aggs.tla (Chk) evaluates the meaning recursively.
package main

import (
	"math"
	"math/rand"
	"time"

	"github.com/blugelabs/bluge/search"
	"github.com/blugelabs/bluge/search/aggregations"
	"verifharness/sq"
)

type src struct {
	F   string `json:"f"`
	Flt string `json:"flt"`
}

type named struct {
	Name string `json:"name"`
	A    *agg   `json:"a"`
}

type agg struct {
	K      string   `json:"k"`
	Src    *src     `json:"src,omitempty"`
	W      *src     `json:"w,omitempty"`
	Size   int      `json:"size,omitempty"`
	Bounds [][2]int `json:"bounds,omitempty"`
	Sub    []named  `json:"sub"`
}

var treeTerms []sq.Term // the keyword vocabulary (index + 1 = logged value)

func numFilter(name string) func(float64) bool {
	switch name {
	case "ge1":
		return func(v float64) bool { return v >= 1 }
	case "ne0":
		return func(v float64) bool { return v != 0 }
	case "lt2":
		return func(v float64) bool { return v < 2 }
	case "nothing":
		return func(float64) bool { return false }
	}
	panic("harness: numeric filter " + name)
}

func termIndex(b []byte) int {
	for i, t := range treeTerms {
		if t.String() == string(b) {
			return i + 1
		}
	}
	return 0
}

func textFilter(name string) func([]byte) bool {
	switch name {
	case "not1":
		return func(b []byte) bool { return termIndex(b) != 1 }
	case "not2":
		return func(b []byte) bool { return termIndex(b) != 2 }
	case "le3":
		return func(b []byte) bool { return termIndex(b) <= 3 }
	case "nothing":
		return func([]byte) bool { return false }
	}
	panic("harness: text filter " + name)
}

func dateFilter(name string) func(time.Time) bool {
	switch name {
	case "ge60":
		return func(t time.Time) bool { return !t.Before(sq.Epoch.Add(60 * time.Second)) }
	case "nothing":
		return func(time.Time) bool { return false }
	}
	panic("harness: date filter " + name)
}

func (s *src) num() search.NumericValuesSource {
	if s.Flt == "none" {
		return search.Field(s.F)
	}
	return aggregations.FilterNumeric(search.Field(s.F), numFilter(s.Flt))
}

func (s *src) text() search.TextValuesSource {
	if s.Flt == "none" {
		return search.Field(s.F)
	}
	return aggregations.FilterText(search.Field(s.F), textFilter(s.Flt))
}

func (s *src) date() search.DateValuesSource {
	if s.Flt == "none" {
		return search.Field(s.F)
	}
	return aggregations.FilterDate(search.Field(s.F), dateFilter(s.Flt))
}

func pick(r *rand.Rand, xs ...string) string { return xs[r.Intn(len(xs))] }

func randNumSrc(r *rand.Rand) *src {
	s := &src{F: pick(r, "n1", "n1", "n2", "n3"), Flt: "none"}
	if r.Intn(3) == 0 {
		s.Flt = pick(r, "ge1", "ne0", "lt2", "ge1", "ne0", "lt2", "nothing")
	}
	return s
}

func randWeightSrc(r *rand.Rand) *src { // single-valued fields only: "the first value" is then unambiguous
	s := &src{F: pick(r, "n2", "n3"), Flt: "none"}
	if r.Intn(4) == 0 {
		s.Flt = pick(r, "ge1", "ne0", "lt2")
	}
	return s
}

func randTextSrc(r *rand.Rand) *src {
	s := &src{F: pick(r, "k1", "k1", "k2"), Flt: "none"}
	if r.Intn(2) == 0 {
		s.Flt = pick(r, "not1", "not2", "le3", "not1", "not2", "le3", "nothing")
	}
	return s
}

func randDateSrc(r *rand.Rand) *src {
	s := &src{F: "t1", Flt: "none"}
	if r.Intn(3) == 0 {
		s.Flt = pick(r, "ge60", "ge60", "nothing")
	}
	return s
}

var numBounds = [][2]int{{-3, 0}, {0, 2}, {2, 3}, {1, 6}, {5, 5}, {-2, -1}, {-3, 6}, {3, 4}}
var dateBounds = [][2]int{{0, 60}, {60, 61}, {1, 3601}, {0, 3601}, {61, 62}}

// randAgg: depth = how many more bucket levels may follow
func randAgg(r *rand.Rand, depth int) *agg {
	kinds := []string{"count", "sum", "min", "max", "avg", "wavg", "card", "quant", "sum", "card"}
	if depth > 0 {
		kinds = append(kinds, "terms", "terms", "ranges", "dranges", "terms", "ranges")
	}
	a := &agg{K: kinds[r.Intn(len(kinds))], Sub: []named{}}
	switch a.K {
	case "count":
	case "sum", "min", "max", "avg", "quant":
		a.Src = randNumSrc(r)
	case "wavg":
		a.Src = randNumSrc(r)
		a.W = randWeightSrc(r)
	case "card":
		a.Src = randTextSrc(r)
	case "terms":
		a.Src = randTextSrc(r)
		a.Size = 1 + r.Intn(5)
	case "ranges":
		a.Src = randNumSrc(r)
		for _, i := range r.Perm(len(numBounds))[:1+r.Intn(4)] {
			a.Bounds = append(a.Bounds, numBounds[i])
		}
	case "dranges":
		a.Src = randDateSrc(r)
		for _, i := range r.Perm(len(dateBounds))[:1+r.Intn(3)] {
			a.Bounds = append(a.Bounds, dateBounds[i])
		}
	}
	if a.K == "terms" || a.K == "ranges" || a.K == "dranges" {
		ns := r.Intn(4)
		for i := 0; i < ns; i++ {
			a.Sub = append(a.Sub, named{Name: "s" + string(rune('a'+i)), A: randAgg(r, depth-1)})
		}
	}
	return a
}

func randRequest(r *rand.Rand) []named {
	n := 2 + r.Intn(5)
	req := []named{}
	for i := 0; i < n; i++ {
		req = append(req, named{Name: "a" + string(rune('a'+i)), A: randAgg(r, 2)})
	}
	return req
}

func (a *agg) real() search.Aggregation {
	switch a.K {
	case "count":
		return aggregations.CountMatches()
	case "sum":
		return aggregations.Sum(a.Src.num())
	case "min":
		return aggregations.Min(a.Src.num())
	case "max":
		return aggregations.Max(a.Src.num())
	case "avg":
		return aggregations.Avg(a.Src.num())
	case "wavg":
		return aggregations.WeightedAvg(a.Src.num(), a.W.num())
	case "card":
		return aggregations.Cardinality(a.Src.text())
	case "quant":
		return aggregations.Quantiles(a.Src.num())
	case "terms":
		t := aggregations.NewTermsAggregation(a.Src.text(), a.Size)
		for _, s := range a.Sub {
			t.AddAggregation(s.Name, s.A.real())
		}
		return t
	case "ranges":
		ra := aggregations.Ranges(a.Src.num())
		for _, b := range a.Bounds {
			ra.AddRange(aggregations.Range(float64(b[0]), float64(b[1])))
		}
		for _, s := range a.Sub {
			ra.AddAggregation(s.Name, s.A.real())
		}
		return ra
	case "dranges":
		da := aggregations.DateRanges(a.Src.date())
		for _, b := range a.Bounds {
			da.AddRange(aggregations.NewDateRange(sq.Epoch.Add(time.Duration(b[0])*time.Second), sq.Epoch.Add(time.Duration(b[1])*time.Second)))
		}
		for _, s := range a.Sub {
			da.AddAggregation(s.Name, s.A.real())
		}
		return da
	}
	panic("harness: kind " + a.K)
}

// result reads what the engine reports for aggregation `name` of bucket b, in the shape Aggs!Chk expects.
func (a *agg) result(b *search.Bucket, name string) map[string]any {
	switch a.K {
	case "count", "sum", "card":
		return map[string]any{"v": int(math.Round(b.Metric(name)))}
	case "min", "max":
		v := b.Metric(name)
		if math.IsInf(v, 0) || math.IsNaN(v) {
			return map[string]any{"none": true, "v": 0}
		}
		return map[string]any{"none": false, "v": int(math.Round(v))}
	case "avg", "wavg":
		v := b.Metric(name)
		if math.IsInf(v, 0) || math.IsNaN(v) {
			return map[string]any{"nan": true, "v1000": 0}
		}
		return map[string]any{"nan": false, "v1000": i1000(v)}
	case "quant":
		qs := []int{}
		qc, ok := b.Aggregation(name).(*aggregations.QuantilesCalculator)
		if !ok {
			return map[string]any{"err": true, "q1000": qs}
		}
		for _, p := range []float64{0, 0.25, 0.5, 0.75, 1} {
			v, err := qc.Quantile(p)
			if err != nil || math.IsNaN(v) {
				return map[string]any{"err": true, "q1000": []int{}}
			}
			qs = append(qs, i1000(v))
		}
		return map[string]any{"err": false, "q1000": qs}
	case "terms":
		bs := []map[string]any{}
		for _, bk := range b.Buckets(name) {
			bs = append(bs, map[string]any{"term": termIndex([]byte(bk.Name())), "count": int(bk.Metric("count")), "sub": a.subResults(bk)})
		}
		other := 0
		if tc, ok := b.Aggregation(name).(*aggregations.TermsCalculator); ok {
			other = tc.Other()
		}
		return map[string]any{"buckets": bs, "other": other}
	case "ranges", "dranges":
		bs := []map[string]any{}
		for _, bk := range b.Buckets(name) {
			bs = append(bs, map[string]any{"count": int(bk.Metric("count")), "sub": a.subResults(bk)})
		}
		return map[string]any{"buckets": bs}
	}
	panic("harness: kind " + a.K)
}

func (a *agg) subResults(bk *search.Bucket) []map[string]any {
	rs := []map[string]any{}
	for _, s := range a.Sub {
		rs = append(rs, s.A.result(bk, s.Name))
	}
	return rs
}
