// aggprobe runs real searches with aggregations under many (n, from, sort,
// after) settings and logs matched documents, settings and the reported
// aggregation values for AggsTrace.tla.
package main

import (
	"context"
	"encoding/json"
	"flag"
	"fmt"
	"math"
	"math/rand"
	"os"
	"sort"
	"strconv"
	"time"

	"github.com/blugelabs/bluge"
	"github.com/blugelabs/bluge/search"
	"github.com/blugelabs/bluge/search/aggregations"
	"verifharness/sq"
)

var enc *json.Encoder
var nq int

type mdoc struct {
	ID int   `json:"id"`
	N1 []int `json:"n1"`
	N2 []int `json:"n2"`
	K1 []int `json:"k1"`
	T1 []int `json:"t1"`
	N3 []int `json:"n3"` // only ever used by nested metrics of the range aggregations
	K2 []int `json:"k2"` // single-valued keyword (generated trees only)
}

func nn(x []int) []int {
	if x == nil {
		return []int{}
	}
	return x
}

func i1000(f float64) int { return int(math.Round(f * 1000)) }

func main() {
	out := flag.String("out", "", "ndjson output")
	tier := flag.String("tier", "quick", "quick|thorough")
	seed := flag.Int64("seed", 1, "seed")
	flag.Parse()
	f, err := os.Create(*out)
	if err != nil {
		panic(err)
	}
	defer f.Close()
	enc = json.NewEncoder(f)
	r := rand.New(rand.NewSource(*seed))
	ncorp, nset := 160, 8
	if *tier == "thorough" {
		ncorp, nset = 5000, 12
	}
	kterms := []sq.Term{{1}, {1, 2}, {2}, {2, 1}, {3}}
	treeTerms = kterms
	nbig := 1
	if *tier == "thorough" {
		nbig = 4
	}
	for ci := 0; ci < ncorp+nbig; ci++ {
		// the last corpora are LARGE: one segment of 1 500+ documents, so that document values span several
		// of the segment format's 1 024-document chunks (buffers are re-used from chunk to chunk)
		big := ci >= ncorp
		nd := 1 + r.Intn(14)
		c := sq.RandCorpus(r, nd, 1+r.Intn(3), false)
		if big {
			nd = 1500 + r.Intn(300)
			for c = sq.RandCorpus(r, nd, 1, false); len(c.Segs[0].Docs) < 1400; {
				c = sq.RandCorpus(r, nd, 1, false)
			}
		}
		docs := map[int]mdoc{}
		for si := range c.Segs {
			for di := range c.Segs[si].Docs {
				d := &c.Segs[si].Docs[di]
				d.N, d.K, d.D = map[string][]int{}, map[string][]sq.Term{}, map[string][]int{}
				m := mdoc{ID: d.ID}
				// n1: 0..2 values (distinct), negative values included
				for _, v := range r.Perm(7)[:r.Intn(3)] {
					x := []int{-2, -1, 0, 1, 2, 3, 5}[v]
					d.N["n1"] = append(d.N["n1"], x)
					m.N1 = append(m.N1, x)
				}
				if r.Intn(4) > 0 {
					x := []int{1, 2, 3, 1, 2, 0, -1}[r.Intn(7)] // weights: mostly positive, sometimes zero or negative
					d.N["n2"] = []int{x}
					m.N2 = []int{x}
				}
				multi := ci%3 == 0 // every third corpus has multi-valued keywords
				nk := r.Intn(2)
				if multi {
					nk = r.Intn(3)
				}
				for _, v := range r.Perm(len(kterms))[:nk] {
					d.K["k1"] = append(d.K["k1"], kterms[v])
					m.K1 = append(m.K1, v+1)
				}
				if r.Intn(4) > 0 {
					x := []int{0, 1, 59, 60, 61, 3600}[r.Intn(6)]
					d.D["t1"] = []int{x}
					m.T1 = []int{x}
				}
				if r.Intn(5) > 0 {
					x := 1 + r.Intn(4)
					d.N["n3"] = []int{x}
					m.N3 = []int{x}
				}
				if r.Intn(5) > 0 {
					v := r.Intn(len(kterms))
					d.K["k2"] = []sq.Term{kterms[v]}
					m.K2 = []int{v + 1}
				}
				m.N1, m.N2, m.K1, m.T1, m.N3, m.K2 = nn(m.N1), nn(m.N2), nn(m.K1), nn(m.T1), nn(m.N3), nn(m.K2)
				docs[d.ID] = m
			}
		}
		// keyword terms are logged as the index in kterms; their byte order is irrelevant here
		w, rd, err := sq.Build(c, sq.BuildOpts{SegVersion: 1 + ci%2})
		if err != nil {
			panic("harness: " + err.Error())
		}
		queries := []*sq.Q{{T: "all"}, {T: "term", F: "f1", V: sq.Vocab[r.Intn(3)]}, sq.RandQuery(r, 1, 3, false)}
		nset := nset
		if big {
			queries, nset = queries[:2], 1
		}
		for _, q := range queries {
			q.Fix()
			mk := func() bluge.Query { rq, _ := q.Real(); return rq }
			ids, err := sq.IDsOf(rd, bluge.NewAllMatches(mk()))
			if err != nil {
				panic("harness: " + err.Error())
			}
			matched := []mdoc{}
			for _, id := range ids {
				matched = append(matched, docs[id])
			}
			tsize := 1 + r.Intn(4)
			bounds := [][2]int{{-3, 0}, {0, 2}, {2, 3}, {1, 6}, {5, 5}, {-2, -1}}
			dbounds := [][2]int{{0, 60}, {60, 61}, {1, 3601}}
			for si2 := 0; si2 < 2*nset; si2++ {
				si, tree := si2/2, si2%2 == 1
				if tree && si%2 == 1 && *tier != "thorough" {
					continue // quick: a generated tree for every other setting
				}
				var treq []named
				addAll := func(add func(string, search.Aggregation)) {
					if !tree {
						addAggs(add, tsize, bounds, dbounds)
						return
					}
					treq = randRequest(r)
					for _, na := range treq {
						add(na.Name, na.A.real())
					}
				}
				n := []int{0, 0, 1, 2, 3, 10, 11, 50}[r.Intn(8)]
				from := []int{0, 0, 1, 3, 12}[r.Intn(5)]
				var req bluge.SearchRequest
				setting := map[string]any{"n": n, "from": from}
				mkTop := func() *bluge.TopNSearch {
					t := bluge.NewTopNSearch(n, mk()).SetFrom(from)
					switch r.Intn(4) {
					case 0:
						t.SortBy([]string{"n2", "-_id"})
						setting["sort"] = "n2,-_id"
					case 1:
						t.SortBy([]string{"-t1"})
						setting["sort"] = "-t1"
					case 2:
						t.SortBy([]string{"_id"})
						setting["sort"] = "_id"
					}
					return t
				}
				var top *bluge.TopNSearch
				if si == 0 {
					am := bluge.NewAllMatches(mk())
					setting["collector"] = "all"
					addAll(func(name string, a search.Aggregation) { am.AddAggregation(name, a) })
					req = am
				} else {
					top = mkTop()
					if r.Intn(3) == 0 && len(ids) > 0 {
						// a paging key: the sort value of some match under sort by _id
						top = bluge.NewTopNSearch(n, mk()).SortBy([]string{"_id"})
						piv := sq.DocName(ids[r.Intn(len(ids))])
						if r.Intn(2) == 0 {
							top.After([][]byte{[]byte(piv)})
							setting["after"] = piv
						} else {
							top.Before([][]byte{[]byte(piv)})
							setting["before"] = piv
						}
						setting["sort"] = "_id"
					}
					addAll(func(name string, a search.Aggregation) { top.AddAggregation(name, a) })
					req = top
				}
				it, err := rd.Search(context.Background(), req)
				e := map[string]any{"ev": "agg", "docs": matched, "settings": setting, "err": ""}
				if tree {
					e["ev"] = "aggtree"
					e["req"] = treq
					e["res"] = []any{}
				}
				if err != nil {
					e["err"] = err.Error()
					e["aggs"] = map[string]any{}
					_ = enc.Encode(e)
					continue
				}
				for m, _ := it.Next(); m != nil; m, _ = it.Next() {
				}
				b := it.Aggregations()
				if tree {
					res := []map[string]any{}
					for _, na := range treq {
						res = append(res, na.A.result(b, na.Name))
					}
					e["res"] = res
					nq++
					_ = enc.Encode(e)
					continue
				}
				a := map[string]any{"tsize": tsize}
				a["count"] = int(b.Metric("count"))
				a["sum"] = int(math.Round(b.Metric("sum")))
				mn, mx := b.Metric("min"), b.Metric("max")
				a["minnone"], a["maxnone"] = math.IsInf(mn, 0), math.IsInf(mx, 0)
				a["min"], a["max"] = 0, 0
				if !math.IsInf(mn, 0) {
					a["min"] = int(mn)
				}
				if !math.IsInf(mx, 0) {
					a["max"] = int(mx)
				}
				avg, wavg := b.Metric("avg"), b.Metric("wavg")
				a["avgnan"], a["wavgnan"] = math.IsNaN(avg) || math.IsInf(avg, 0), math.IsNaN(wavg) || math.IsInf(wavg, 0)
				a["avg1000"], a["wavg1000"] = 0, 0
				if !a["avgnan"].(bool) {
					a["avg1000"] = i1000(avg)
				}
				if !a["wavgnan"].(bool) {
					a["wavg1000"] = i1000(wavg)
				}
				a["card"] = int(b.Metric("card"))
				qs := []int{}
				qerr := false
				if qc, ok := b.Aggregation("quant").(*aggregations.QuantilesCalculator); ok {
					for _, p := range []float64{0, 0.25, 0.5, 0.75, 1} {
						v, err := qc.Quantile(p)
						if err != nil || math.IsNaN(v) {
							qerr = true
							break
						}
						qs = append(qs, i1000(v))
					}
				} else {
					qerr = true
				}
				if qerr {
					qs = []int{}
				}
				a["q1000"], a["qerr"] = qs, qerr
				// terms
				tb := []map[string]any{}
				for _, bk := range b.Buckets("terms") {
					ti := 0
					for i, t := range kterms {
						if t.String() == bk.Name() {
							ti = i + 1
						}
					}
					tb = append(tb, map[string]any{"term": ti, "count": int(bk.Metric("count")), "sum": int(math.Round(bk.Metric("sum")))})
				}
				a["terms"] = tb
				a["tother"] = 0
				if tc, ok := b.Aggregation("terms").(*aggregations.TermsCalculator); ok {
					a["tother"] = tc.Other()
				}
				rb := []map[string]any{}
				for i, bk := range b.Buckets("ranges") {
					mx := bk.Metric("max1")
					e := map[string]any{"lo": bounds[i][0], "hi": bounds[i][1], "count": int(bk.Metric("count")), "sum2": int(math.Round(bk.Metric("sum2"))),
						"sum3":     int(math.Round(bk.Metric("sum3"))),
						"card":     int(math.Round(bk.Metric("card"))), // nested cardinality of k1: one sketch PER bucket
						"max1none": math.IsInf(mx, 0), "max1": 0}
					if !math.IsInf(mx, 0) {
						e["max1"] = int(mx)
					}
					rb = append(rb, e)
				}
				a["ranges"] = rb
				db := []map[string]any{}
				for i, bk := range b.Buckets("dranges") {
					db = append(db, map[string]any{"lo": dbounds[i][0], "hi": dbounds[i][1], "count": int(bk.Metric("count")), "sum3": int(math.Round(bk.Metric("sum3")))})
				}
				a["dranges"] = db
				e["aggs"] = a
				nq++
				_ = enc.Encode(e)
			}
		}
		rd.Close()
		w.Close()
	}
	_ = sort.Ints
	_ = strconv.Itoa
	fmt.Println("searches", nq)
}

func addAggs(add func(string, search.Aggregation), tsize int, bounds, dbounds [][2]int) {
	n1, n2 := search.Field("n1"), search.Field("n2")
	add("count", aggregations.CountMatches())
	add("sum", aggregations.Sum(n1))
	add("min", aggregations.Min(n1))
	add("max", aggregations.Max(n1))
	add("avg", aggregations.Avg(n1))
	add("wavg", aggregations.WeightedAvg(n1, n2))
	add("card", aggregations.Cardinality(search.Field("k1")))
	add("quant", aggregations.Quantiles(n1))
	ta := aggregations.NewTermsAggregation(search.Field("k1"), tsize)
	ta.AddAggregation("sum", aggregations.Sum(n1))
	add("terms", ta)
	ra := aggregations.Ranges(n1)
	for _, b := range bounds {
		ra.AddRange(aggregations.Range(float64(b[0]), float64(b[1])))
	}
	ra.AddAggregation("sum2", aggregations.Sum(n2))
	ra.AddAggregation("max1", aggregations.Max(n1))
	ra.AddAggregation("sum3", aggregations.Sum(search.Field("n3")))
	ra.AddAggregation("card", aggregations.Cardinality(search.Field("k1")))
	add("ranges", ra)
	da := aggregations.DateRanges(search.Field("t1"))
	for _, b := range dbounds {
		da.AddRange(aggregations.NewDateRange(sq.Epoch.Add(time.Duration(b[0])*time.Second), sq.Epoch.Add(time.Duration(b[1])*time.Second)))
	}
	da.AddAggregation("sum3", aggregations.Sum(search.Field("n3")))
	add("dranges", da)
}
