// searchprobe indexes generated corpora for real, runs generated queries
// through Reader.Search and logs corpus, query and returned ids for SearchTrace.tla.
package main

import (
	"encoding/json"
	"flag"
	"fmt"
	"math/rand"
	"os"

	"github.com/blugelabs/bluge"
	"verifharness/sq"
)

var enc *json.Encoder
var nq int

func run(c sq.Corpus, qs []*sq.Q, o sq.BuildOpts) {
	w, r, err := sq.Build(c, o)
	if err != nil {
		panic("harness: build: " + err.Error())
	}
	defer w.Close()
	defer r.Close()
	_ = enc.Encode(map[string]any{"ev": "corpus", "c": c})
	total := 0
	for _, s := range c.Segs {
		total += len(s.Docs)
	}
	for _, q := range qs {
		q.Fix()
		rq, err := q.Real()
		if err != nil {
			panic("harness: " + err.Error())
		}
		res, err1 := sq.IDsOf(r, bluge.NewAllMatches(rq))
		rq2, _ := q.Real()
		res2, err2 := sq.IDsOf(r, bluge.NewTopNSearch(total+3, rq2))
		// and once more with scoring switched off (the searchers built for that mode are different ones)
		rq3, _ := q.Real()
		res3, err3 := sq.IDsOf(r, bluge.NewTopNSearch(total+3, rq3).SetScore("none"))
		if err2 == nil {
			err2 = err3
		}
		errs := ""
		if err1 != nil {
			errs = err1.Error()
		} else if err2 != nil {
			errs = err2.Error()
		}
		nq++
		_ = enc.Encode(map[string]any{"ev": "q", "q": q, "res": res, "res2": res2, "res3": res3, "err": errs})
	}
}

// small scope: three terms over five documents in two segments; boolean shapes of depth <= 2
func smallCorpus(bits int, split int, del int) sq.Corpus {
	var c sq.Corpus
	var docs []sq.Doc
	for d := 0; d < 5; d++ {
		doc := sq.Doc{ID: d + 1, T: map[string][]sq.Term{}, N: map[string][]int{}, D: map[string][]int{}, K: map[string][]sq.Term{}}
		for t := 0; t < 3; t++ {
			if bits&(1<<(d*3+t)) != 0 {
				doc.T["f1"] = append(doc.T["f1"], sq.Term{t + 1})
			}
		}
		docs = append(docs, doc)
	}
	s1, s2 := sq.Seg{Docs: docs[:split], Del: []int{}}, sq.Seg{Docs: docs[split:], Del: []int{}}
	if del > 0 {
		if del <= split {
			s1.Del = []int{del}
		} else {
			s2.Del = []int{del - split}
		}
	}
	c.Segs = []sq.Seg{s1, s2}
	return c
}

func smallLeaves() []*sq.Q {
	return []*sq.Q{{T: "term", F: "f1", V: sq.Term{1}}, {T: "term", F: "f1", V: sq.Term{2}}, {T: "term", F: "f1", V: sq.Term{3}}, {T: "all"}, {T: "none"}}
}

func smallBool(r *rand.Rand, depth int) *sq.Q {
	leaves := smallLeaves()
	if depth == 0 {
		l := *leaves[r.Intn(len(leaves))]
		return &l
	}
	q := &sq.Q{T: "bool"}
	pick := func() *sq.Q {
		if depth > 1 && r.Intn(2) == 0 {
			return smallBool(r, depth-1)
		}
		l := *leaves[r.Intn(len(leaves))]
		return &l
	}
	nm, ns, nn := r.Intn(3), r.Intn(4), r.Intn(3)
	if nm+ns+nn == 0 {
		ns = 1
	}
	for i := 0; i < nm; i++ {
		q.Must = append(q.Must, pick())
	}
	for i := 0; i < ns; i++ {
		q.Should = append(q.Should, pick())
	}
	for i := 0; i < nn; i++ {
		q.Nots = append(q.Nots, pick())
	}
	q.Min = r.Intn(4)
	return q
}

// geoHits: some document point lies inside the circle according to the generated table
func geoHits(c sq.Corpus, q *sq.Q) bool {
	for _, sg := range c.Segs {
		for _, d := range sg.Docs {
			for _, p := range d.G["g1"] {
				if km, ok := sq.GeoKmTab[[4]int{q.C[0], q.C[1], p[0], p[1]}]; ok && km <= q.Km {
					return true
				}
			}
		}
	}
	return false
}

func main() {
	out := flag.String("out", "", "ndjson output")
	tier := flag.String("tier", "quick", "quick|thorough")
	seed := flag.Int64("seed", 1, "seed")
	leaves := flag.Bool("leaves", false, "leaf queries only (diagnosis)")
	richOnly := flag.Int("rich", 0, "if > 0: only that many rich corpora (used by the C04 sub-check: many different searches on one reader)")
	flag.Parse()
	f, err := os.Create(*out)
	if err != nil {
		panic(err)
	}
	defer f.Close()
	enc = json.NewEncoder(f)
	r := rand.New(rand.NewSource(*seed))
	nsmall, nq1, nrich, nq2, ngeo := 400, 30, 400, 40, 20
	if *tier == "thorough" {
		nsmall, nq1, nrich, nq2, ngeo = 4000, 40, 2500, 40, 200
	}
	if *richOnly > 0 {
		nsmall, nrich, ngeo = 0, *richOnly, 0
	}
	if *leaves {
		for i := 0; i < 200; i++ {
			c := sq.RandCorpus(r, 3+r.Intn(8), 1+r.Intn(3), true)
			var qs []*sq.Q
			for j := 0; j < 40; j++ {
				qs = append(qs, sq.RandQuery(r, 0, 1, true))
			}
			run(c, qs, sq.BuildOpts{SegVersion: 1 + i%2})
		}
		fmt.Println("queries", nq)
		return
	}
	for i := 0; i < nsmall; i++ {
		c := smallCorpus(r.Intn(1<<15), 1+r.Intn(4), r.Intn(6)*r.Intn(2))
		var qs []*sq.Q
		for j := 0; j < nq1; j++ {
			qs = append(qs, smallBool(r, 1+r.Intn(2)))
		}
		run(c, qs, sq.BuildOpts{SegVersion: 1 + i%2})
	}
	for i := 0; i < nrich; i++ {
		c := sq.RandCorpus(r, 3+r.Intn(10), 1+r.Intn(4), true)
		var qs []*sq.Q
		for j := 0; j < nq2; j++ {
			width := 3
			if r.Intn(6) == 0 {
				width = 12 // beyond the heap take-over of the disjunction searcher
			}
			qs = append(qs, sq.RandQuery(r, r.Intn(4), width, true))
		}
		o := sq.BuildOpts{SegVersion: 1 + i%2}
		if i%4 == 3 && len(c.Segs) >= 3 {
			// the first two segments come out of the offline writer as one MERGED segment
			dir, err := os.MkdirTemp("/dev/shm", "sprobe")
			if err == nil {
				o.Path, o.OfflinePrefix = dir, 2
			}
		}
		run(c, qs, o)
		if o.Path != "" {
			_ = os.RemoveAll(o.Path)
		}
	}
	// geo block: every geo query costs the engine about 0.1 s (cell enumeration), so they get their own, smaller budget
	for i := 0; i < ngeo; i++ {
		c := sq.RandCorpus(r, 6+r.Intn(10), 1+r.Intn(4), true)
		var qs []*sq.Q
		for j := 0; j < 3; j++ {
			b, d := sq.RandGeoBox(r), sq.RandGeoDist(r, 3000)
			for try := 0; try < 8 && !geoHits(c, d) && j > 0; try++ { // two in three steered to a non-empty result
				d = sq.RandGeoDist(r, 3000)
			}
			qs = append(qs, b, d,
				&sq.Q{T: "bool", Must: []*sq.Q{d}, Nots: []*sq.Q{b}},
				&sq.Q{T: "bool", Should: []*sq.Q{b, d, sq.RandQuery(r, 0, 1, true)}, Nots: []*sq.Q{sq.RandQuery(r, 0, 1, true)}, Min: r.Intn(3)})
		}
		run(c, qs, sq.BuildOpts{SegVersion: 1 + i%2})
	}
	fmt.Println("queries", nq)
}
