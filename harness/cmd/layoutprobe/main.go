// layoutprobe builds the same logical corpus by many recipes and logs the
// answers each build gives, for LayoutTrace.tla.
package main

import (
	"context"
	"encoding/json"
	"flag"
	"fmt"
	"math"
	"math/rand"
	"os"
	"sort"
	"strconv"
	"time"

	"github.com/blugelabs/bluge"
	"github.com/blugelabs/bluge/index"
	"github.com/blugelabs/bluge/index/mergeplan"
	"github.com/blugelabs/bluge/search"
	"github.com/blugelabs/bluge/search/aggregations"
	ice2 "github.com/blugelabs/ice/v2"
	"verifharness/sq"
)

var enc *json.Encoder
var nq int
var scratch string

type build struct {
	readers []*bluge.Reader
	closers []func()
	cmp     bool // scores promised equal (no pending deletions, no merged segments, one index)
	merged  bool
	none    bool // search with scoring turned off
}

func (b *build) close() {
	for _, r := range b.readers {
		_ = r.Close()
	}
	for _, c := range b.closers {
		c()
	}
}

func cfg(path string, segv int, merge string, noopt bool) bluge.Config {
	var c bluge.Config
	if path == "" {
		c = bluge.InMemoryOnlyConfig()
	} else {
		c = bluge.DefaultConfig(path)
	}
	if noopt {
		c = c.DisableOptimizeConjunction().DisableOptimizeConjunctionUnadorned().DisableOptimizeDisjunctionUnadorned()
	}
	ic := c.VerifIndexConfig()
	if segv == 2 {
		ic = ic.WithSegmentType(ice2.Type).WithSegmentVersion(ice2.Version)
	}
	mo := mergeplan.DefaultMergePlanOptions
	switch merge {
	case "none":
		mo.CalcBudget = func(int64, int64, *mergeplan.Options) int { return 1 << 20 }
		ic.MinSegmentsForInMemoryMerge = 1 << 20
	case "eager":
		mo.MaxSegmentsPerTier, mo.SegmentsPerMergeTask, mo.FloorSegmentSize = 1, 3, 1
		mo.CalcBudget = func(int64, int64, *mergeplan.Options) int { return 1 }
	}
	ic.MergePlanOptions = mo
	return c.VerifWithIndexConfig(ic)
}

func tmpdir() string {
	d, err := os.MkdirTemp(scratch, "lay")
	if err != nil {
		panic(err)
	}
	return d
}

// partition splits docs into consecutive batches of random sizes
func partition(r *rand.Rand, docs []sq.Doc, maxb int) [][]sq.Doc {
	var rv [][]sq.Doc
	for i := 0; i < len(docs); {
		k := 1 + r.Intn(maxb)
		if i+k > len(docs) {
			k = len(docs) - i
		}
		rv = append(rv, docs[i:i+k])
		i += k
	}
	return rv
}

func writeBatches(w *bluge.Writer, batches [][]sq.Doc) error {
	for _, b := range batches {
		bt := index.NewBatch()
		for _, d := range b {
			bt.Insert(sq.RealDoc(d))
		}
		if err := w.Batch(bt); err != nil {
			return err
		}
	}
	return nil
}

func segCount(r *bluge.Reader) int { return -1 }

// recipes
func buildOne(r *rand.Rand, name string, docs []sq.Doc) (*build, error) {
	b := &build{cmp: true}
	open := func(c bluge.Config) (*bluge.Writer, error) {
		w, err := bluge.OpenWriter(c)
		if err == nil {
			b.closers = append(b.closers, func() { _ = w.Close() })
		}
		return w, err
	}
	reader := func(w *bluge.Writer) error {
		rd, err := w.Reader()
		if err == nil {
			b.readers = append(b.readers, rd)
		}
		return err
	}
	switch name {
	case "one-per-batch", "all-at-once", "partition-mem", "v2", "noopt", "score-none":
		path, segv := tmpdir(), 1
		if name == "partition-mem" {
			path = ""
		}
		if name == "v2" {
			segv = 2
		}
		w, err := open(cfg(path, segv, "none", name == "noopt"))
		if err != nil {
			return b, err
		}
		var batches [][]sq.Doc
		switch name {
		case "one-per-batch":
			batches = partition(r, docs, 1)
		case "all-at-once":
			if len(docs) > 0 {
				batches = [][]sq.Doc{docs}
			}
		default:
			batches = partition(r, docs, 4)
		}
		if err = writeBatches(w, batches); err != nil {
			return b, err
		}
		b.none = name == "score-none"
		if b.none {
			b.cmp = false
		}
		return b, reader(w)
	case "reopen":
		path := tmpdir()
		w, err := bluge.OpenWriter(cfg(path, 1, "none", false))
		if err != nil {
			return b, err
		}
		if err = writeBatches(w, partition(r, docs, 3)); err != nil {
			return b, err
		}
		if err = w.Close(); err != nil {
			return b, err
		}
		if len(docs) == 0 {
			// nothing was ever persisted: a reader cannot be opened on it; reopen the writer instead
			w2, err := open(cfg(path, 1, "none", false))
			if err != nil {
				return b, err
			}
			return b, reader(w2)
		}
		rd, err := bluge.OpenReader(cfg(path, 1, "none", false))
		if err == nil {
			b.readers = append(b.readers, rd)
		}
		return b, err
	case "backup":
		w, err := open(cfg("", 1, "none", false))
		if err != nil {
			return b, err
		}
		if err = writeBatches(w, partition(r, docs, 3)); err != nil {
			return b, err
		}
		r0, err := w.Reader()
		if err != nil {
			return b, err
		}
		defer r0.Close()
		dst := tmpdir()
		if err = r0.Backup(dst, nil); err != nil {
			return b, err
		}
		rd, err := bluge.OpenReader(cfg(dst, 1, "none", false))
		if err == nil {
			b.readers = append(b.readers, rd)
		}
		return b, err
	case "offline-1", "offline-3", "offline-100":
		bs, _ := strconv.Atoi(name[8:])
		path := tmpdir()
		ow, err := bluge.OpenOfflineWriter(cfg(path, 1, "none", false), bs, 10)
		if err != nil {
			return b, err
		}
		for _, d := range docs {
			if err = ow.Insert(sq.RealDoc(d)); err != nil {
				return b, err
			}
		}
		if err = ow.Close(); err != nil {
			return b, err
		}
		b.cmp, b.merged = false, true
		rd, err := bluge.OpenReader(cfg(path, 1, "none", false))
		if err == nil {
			b.readers = append(b.readers, rd)
		}
		return b, err
	case "merged", "merged-none":
		path := tmpdir()
		w, err := open(cfg(path, 1, "eager", false))
		if err != nil {
			return b, err
		}
		if err = writeBatches(w, partition(r, docs, 2)); err != nil {
			return b, err
		}
		time.Sleep(30 * time.Millisecond) // let the merger work; whatever layout results is a legal one
		b.cmp, b.merged = false, true
		b.none = name == "merged-none"
		return b, reader(w)
	case "with-deletes", "backup-deletes", "reopen-deletes", "merged-deletes":
		wpath := tmpdir()
		mergeMode := "none"
		if name == "merged-deletes" {
			mergeMode = "eager" // merges of SOME segments while others carry pending deletions
		}
		w, err := open(cfg(wpath, 1, mergeMode, false))
		if err != nil {
			return b, err
		}
		// extra documents are written between the real ones and deleted again: pending deletions
		var all []sq.Doc
		for i, d := range docs {
			all = append(all, d)
			if i%2 == 0 {
				x := d
				x.ID = 1000 + d.ID
				all = append(all, x)
			}
		}
		if len(docs) == 0 {
			all = append(all, sq.Doc{ID: 1000, T: map[string][]sq.Term{"f1": {{1}}}})
		}
		if err = writeBatches(w, partition(r, all, 3)); err != nil {
			return b, err
		}
		bt := index.NewBatch()
		for _, d := range all {
			if d.ID >= 1000 {
				bt.Delete(bluge.Identifier(sq.DocName(d.ID)))
			}
		}
		if err = w.Batch(bt); err != nil {
			return b, err
		}
		b.cmp = false
		if name == "merged-deletes" {
			time.Sleep(30 * time.Millisecond) // let the merger work; whatever layout results is a legal one
			b.merged = true
		}
		switch name {
		case "backup-deletes":
			// the backup must carry the pending deletions (they live in the snapshot, not in the segment files)
			r0, err := w.Reader()
			if err != nil {
				return b, err
			}
			defer r0.Close()
			dst := tmpdir()
			if err = r0.Backup(dst, nil); err != nil {
				return b, err
			}
			rd, err := bluge.OpenReader(cfg(dst, 1, "none", false))
			if err == nil {
				b.readers = append(b.readers, rd)
			}
			return b, err
		case "reopen-deletes":
			if err = w.Close(); err != nil {
				return b, err
			}
			rd, err := bluge.OpenReader(cfg(wpath, 1, "none", false))
			if err == nil {
				b.readers = append(b.readers, rd)
			}
			return b, err
		}
		return b, reader(w)
	case "multi-2", "multi-3":
		k, _ := strconv.Atoi(name[6:])
		parts := make([][]sq.Doc, k)
		for i, d := range docs {
			parts[i%k] = append(parts[i%k], d)
		}
		for _, p := range parts {
			w, err := open(cfg("", 1, "none", false))
			if err != nil {
				return b, err
			}
			if err = writeBatches(w, partition(r, p, 3)); err != nil {
				return b, err
			}
			if err = reader(w); err != nil {
				return b, err
			}
		}
		b.cmp = false
		return b, nil
	}
	return b, fmt.Errorf("harness: unknown recipe %s", name)
}

func answers(b *build, q *sq.Q, docs map[int]sq.Doc) map[string]any {
	mk := func() bluge.Query { rq, _ := q.Real(); return rq }
	search1 := func(req bluge.SearchRequest) (search.DocumentMatchIterator, error) {
		if len(b.readers) == 1 {
			return b.readers[0].Search(context.Background(), req)
		}
		return bluge.MultiSearch(context.Background(), req, b.readers...)
	}
	res := map[string]any{"err": "", "stored": true}
	idOf := func(m *search.DocumentMatch) (int, bool) {
		id, ok := -1, true
		_ = m.VisitStoredFields(func(field string, value []byte) bool {
			if field == "_id" {
				id, _ = strconv.Atoi(string(value[1:]))
			}
			return true
		})
		// stored fields must be the document's own
		if d, found := docs[id]; found {
			_ = m.VisitStoredFields(func(field string, value []byte) bool {
				if field == "f1" {
					var words string
					for i, t := range d.T["f1"] {
						if i > 0 {
							words += " "
						}
						words += t.String()
					}
					if string(value) != words {
						ok = false
					}
				}
				return true
			})
		} else {
			ok = false
		}
		return id, ok
	}
	// 1. match set + scores (sorted by id for comparison)
	total := len(docs) + 5
	top := bluge.NewTopNSearch(total, mk())
	if b.none {
		top.SetScore("none")
	}
	top.AddAggregation("count", aggregations.CountMatches())
	top.AddAggregation("sum", aggregations.Sum(search.Field("n1")))
	it, err := search1(top)
	if err != nil {
		res["err"] = err.Error()
		return res
	}
	type sc struct {
		id int
		s  string
	}
	var scs []sc
	ids := []int{}
	for m, err := it.Next(); m != nil || err != nil; m, err = it.Next() {
		if err != nil {
			res["err"] = err.Error()
			return res
		}
		id, ok := idOf(m)
		if !ok {
			res["stored"] = false
		}
		ids = append(ids, id)
		scs = append(scs, sc{id, strconv.FormatUint(math.Float64bits(m.Score), 16)})
	}
	sort.Ints(ids)
	sort.Slice(scs, func(i, j int) bool { return scs[i].id < scs[j].id })
	scores := [][]any{}
	for _, s := range scs {
		scores = append(scores, []any{s.id, s.s})
	}
	res["ids"], res["scores"] = ids, scores
	res["count"] = int(it.Aggregations().Metric("count"))
	res["sum"] = int(math.Round(it.Aggregations().Metric("sum")))
	// 2. total field sort
	srt := bluge.NewTopNSearch(total, mk()).SortBy([]string{"n1", "_id"})
	if b.none {
		srt.SetScore("none")
	}
	it, err = search1(srt)
	if err != nil {
		res["err"] = err.Error()
		return res
	}
	order := []int{}
	for m, err := it.Next(); m != nil || err != nil; m, err = it.Next() {
		if err != nil {
			res["err"] = err.Error()
			return res
		}
		id, _ := idOf(m)
		order = append(order, id)
	}
	res["order"] = order
	return res
}

func main() {
	out := flag.String("out", "", "ndjson output")
	tier := flag.String("tier", "quick", "quick|thorough")
	seed := flag.Int64("seed", 1, "seed")
	flag.Parse()
	f, err := os.Create(*out)
	if err != nil {
		panic(err)
	}
	defer f.Close()
	enc = json.NewEncoder(f)
	r := rand.New(rand.NewSource(*seed))
	scratch, err = os.MkdirTemp("/dev/shm", "layoutprobe")
	if err != nil {
		panic(err)
	}
	defer os.RemoveAll(scratch)
	ncorp, nqs := 24, 10
	if *tier == "thorough" {
		ncorp, nqs = 300, 16
	}
	recipes := []string{"all-at-once", "one-per-batch", "partition-mem", "v2", "noopt", "reopen", "backup", "score-none",
		"offline-1", "offline-3", "offline-100", "merged", "merged-none", "with-deletes", "backup-deletes", "reopen-deletes", "merged-deletes", "multi-2", "multi-3"}
	for ci := 0; ci < ncorp; ci++ {
		nd := []int{0, 1, 3, 7, 12, 15, 25, 40}[r.Intn(8)]
		if ci == 0 {
			nd = 0
		}
		c := sq.RandCorpus(r, nd, 1, true)
		var docs []sq.Doc
		if len(c.Segs) > 0 {
			docs = c.Segs[0].Docs
			c.Segs[0].Del = []int{}
		}
		if len(docs) >= 12 && ci%3 == 1 {
			// a structured corpus for the three-term conjunction: the two rare terms share the first two documents, the
			// frequent third term only starts at the fifth (so the first small batches do not contain it at all)
			strip := func(ts []sq.Term, drop ...int) []sq.Term {
				var rv []sq.Term
				for _, t := range ts {
					keep := true
					for _, x := range drop {
						if len(t) == 1 && t[0] == x {
							keep = false
						}
					}
					if keep {
						rv = append(rv, t)
					}
				}
				return rv
			}
			for i := range docs {
				f := strip(docs[i].T["f1"], 1, 2, 3)
				switch {
				case i < 2 || i == 8 || i == 9:
					f = append(f, sq.Term{1}, sq.Term{2})
				}
				if i >= 4 {
					f = append(f, sq.Term{3})
				}
				if len(f) == 0 {
					f = []sq.Term{{1, 1}}
				}
				docs[i].T["f1"] = f
			}
		}
		// single-valued sort/aggregation field; id ranks (string order of the document names)
		names := []string{}
		for i := range docs {
			if v := docs[i].N["n1"]; len(v) > 1 {
				docs[i].N["n1"] = v[:1]
			}
			names = append(names, sq.DocName(docs[i].ID))
			// a keyword that is unique per document (its postings lists have exactly one hit)
			var u sq.Term
			for x := docs[i].ID; x > 0; x /= 3 {
				u = append(u, 1+x%3)
			}
			docs[i].K["u1"] = []sq.Term{u}
		}
		sort.Strings(names)
		rank := map[string]int{}
		for i, n := range names {
			rank[n] = i + 1
		}
		type cdoc struct {
			sq.Doc
			R int `json:"r"`
		}
		cd := []cdoc{}
		byID := map[int]sq.Doc{}
		for _, d := range docs {
			cd = append(cd, cdoc{d, rank[sq.DocName(d.ID)]})
			byID[d.ID] = d
		}
		_ = enc.Encode(map[string]any{"ev": "corpus", "c": map[string]any{"segs": []any{map[string]any{"docs": cd, "del": []int{}}}}})
		var qs []*sq.Q
		for j := 0; j < nqs; j++ {
			var q *sq.Q
			switch j {
			case 0:
				q = &sq.Q{T: "all"}
			case 1: // a conjunction of keyword terms (a field without positions)
				q = &sq.Q{T: "bool", Must: []*sq.Q{{T: "term", F: "f1", V: sq.Vocab[r.Intn(4)]}, {T: "term", F: "f1", V: sq.Vocab[r.Intn(4)]}}}
			case 3: // conjunctions over fields without positions, terms with a single hit
				a, bb := sq.Term{1}, sq.Term{2}
				if len(docs) > 1 {
					a, bb = docs[r.Intn(len(docs))].K["u1"][0], docs[r.Intn(len(docs))].K["u1"][0]
				}
				q = &sq.Q{T: "bool", Must: []*sq.Q{{T: "term", F: "u1", V: a}, {T: "term", F: "u1", V: bb}}}
			case 4:
				a := sq.Term{1}
				if len(docs) > 0 {
					a = docs[r.Intn(len(docs))].K["u1"][0]
				}
				q = &sq.Q{T: "bool", Must: []*sq.Q{{T: "term", F: "u1", V: a}, {T: "term", F: "k1", V: sq.Vocab[r.Intn(4)]}}}
			case 5: // a scored conjunction of three terms of one text field (a term that is absent from one of the segments)
				q = &sq.Q{T: "bool", Must: []*sq.Q{{T: "term", F: "f1", V: sq.Vocab[0]}, {T: "term", F: "f1", V: sq.Vocab[1]}, {T: "term", F: "f1", V: sq.Vocab[2]}}}
			case 6:
				q = &sq.Q{T: "bool", Must: []*sq.Q{{T: "term", F: "f1", V: sq.Vocab[r.Intn(3)]}, {T: "term", F: "f2", V: sq.Vocab[r.Intn(3)]}, {T: "term", F: "f1", V: sq.Vocab[3+r.Intn(7)]}}}
			case 2:
				q = &sq.Q{T: "bool", Should: []*sq.Q{{T: "term", F: "f2", V: sq.Vocab[r.Intn(4)]}, {T: "term", F: "f1", V: sq.Vocab[r.Intn(4)]}}, Min: 1}
			default:
				q = sq.RandQuery(r, r.Intn(3), 3, true)
			}
			qs = append(qs, q.Fix())
		}
		for _, rc := range recipes {
			b, err := buildOne(r, rc, docs)
			for qi, q := range qs {
				var a map[string]any
				if err != nil {
					a = map[string]any{"err": "build: " + err.Error(), "stored": true}
				} else {
					a = answers(b, q, byID)
				}
				a["ev"], a["recipe"], a["scn"], a["qi"], a["q"] = "ans", rc, rc, qi+1, q
				a["cmp"], a["merged"] = b.cmp, b.merged && !b.none
				for _, k := range []string{"ids", "order", "scores"} {
					if a[k] == nil {
						a[k] = []int{}
					}
				}
				for _, k := range []string{"count", "sum"} {
					if a[k] == nil {
						a[k] = 0
					}
				}
				nq++
				_ = enc.Encode(a)
			}
			b.close()
		}
	}
	fmt.Println("answers", nq)
}
