// persistprobe calls the real FileSystemDirectory.Persist for a list of cases
// while strace records its system calls. Marker calls (unlink of names that do
// not exist) delimit the cases in the strace output.
package main

import (
	"bytes"
	"errors"
	"flag"
	"fmt"
	"io"
	"math/rand"
	"os"
	"path/filepath"

	"github.com/blugelabs/bluge/index"
)

func pat(i int) byte { return byte((i*7 + 3) % 251) }

type item struct {
	size   int
	chunk  int
	failAt int  // -1: never
	cancel bool // give up because closeCh is closed, after failAt bytes (or at once)
	// closeAfter: every byte is written and the writer reports success, but closeCh is closed just before it
	// returns (the index starts closing as the write completes): success with the exact file, or failure with no file
	closeAfter bool
	closer     func()
}

var errItem = errors.New("probe: item writer failed")

func (it *item) WriteTo(w io.Writer, closeCh chan struct{}) (int64, error) {
	var n int64
	off := 0
	for off < it.size || it.failAt == off {
		if it.failAt >= 0 && off >= it.failAt {
			if it.cancel {
				it.closer()
				<-closeCh
				return n, errors.New("probe: cancelled")
			}
			return n, errItem
		}
		k := it.chunk
		if off+k > it.size {
			k = it.size - off
		}
		if it.failAt >= 0 && off+k > it.failAt {
			k = it.failAt - off
		}
		buf := make([]byte, k)
		for i := range buf {
			buf[i] = pat(off + i)
		}
		m, err := w.Write(buf)
		n += int64(m)
		off += m
		if err != nil {
			return n, err
		}
	}
	if it.closeAfter {
		it.closer()
	}
	return n, nil
}

func mark(dir, s string) { _ = os.Remove(filepath.Join(dir, "MARK."+s)) }

func main() {
	dir := flag.String("dir", "", "scratch directory")
	tier := flag.String("tier", "quick", "quick|thorough")
	seed := flag.Int64("seed", 1, "seed")
	flag.Parse()
	if err := os.MkdirAll(*dir, 0o755); err != nil {
		panic(err)
	}
	d := index.NewFileSystemDirectory(*dir)
	rng := rand.New(rand.NewSource(*seed))
	const buf = 4096
	sizes := []int{0, 1, buf - 1, buf, buf + 1, 3 * buf}
	if *tier == "thorough" {
		for k := 2; k <= 64; k++ {
			sizes = append(sizes, k)
		}
		for p := 128; p <= 3*buf; p *= 2 {
			sizes = append(sizes, p-1, p, p+1)
		}
		for k := 0; k < 150; k++ {
			sizes = append(sizes, 65+rng.Intn(12*buf))
		}
	}
	sizes = append(sizes, 2+rng.Intn(3*buf), 2+rng.Intn(200))
	type fail struct {
		name   string
		failAt func(size int) int
		cancel bool
	}
	fails := []fail{
		{"none", func(int) int { return -1 }, false},
		{"err0", func(int) int { return 0 }, false},
		{"errmid", func(s int) int { return s / 2 }, false},
		{"errfull", func(s int) int { return s }, false},
		{"cancel0", func(int) int { return 0 }, true},
		{"cancelmid", func(s int) int { return s / 2 }, true},
		{"closeafter", func(int) int { return -1 }, false},
	}
	n := 0
	for _, kind := range []string{index.ItemKindSegment, index.ItemKindSnapshot} {
		for _, size := range sizes {
			for _, pre := range []string{"absent", "shorter", "equal", "longer", "held"} {
				for _, fl := range fails {
					// held: the earlier file of the item is in use (a Load of it is open): Persist is refused and
					// must not have touched it
					if pre == "held" && fl.name != "none" && fl.name != "errmid" && fl.name != "cancel0" {
						continue
					}
					n++
					id := uint64(n)
					path := filepath.Join(*dir, fmt.Sprintf("%012x%s", id, kind))
					preLen := -1
					switch pre {
					case "shorter":
						preLen = size / 2
					case "equal":
						preLen = size
					case "longer":
						preLen = size + 1 + rng.Intn(2*buf)
					case "held":
						preLen = []int{size + 1 + rng.Intn(2*buf), size/2 + 1, size + 1}[rng.Intn(3)]
					}
					if preLen >= 0 {
						if err := os.WriteFile(path, bytes.Repeat([]byte{0xEE}, preLen), 0o600); err != nil {
							panic(err)
						}
					}
					var holder io.Closer
					if pre == "held" {
						var lerr error
						if _, holder, lerr = d.Load(kind, id); lerr != nil {
							panic(lerr)
						}
					}
					closeCh := make(chan struct{})
					it := &item{size: size, chunk: []int{buf, 1000, 7 + rng.Intn(5000)}[rng.Intn(3)], failAt: fl.failAt(size), cancel: fl.cancel, closeAfter: fl.name == "closeafter"}
					it.closer = func() { close(closeCh) }
					mark(*dir, fmt.Sprintf("call.%d.%d.%s.%s.%s", size, preLen, kind[1:], pre, fl.name))
					err := d.Persist(kind, id, it, closeCh)
					if err == nil {
						mark(*dir, "ret.ok")
					} else {
						mark(*dir, "ret.err")
					}
					b, rerr := os.ReadFile(path)
					exists := rerr == nil
					equal := exists && len(b) == size
					if equal {
						for i := range b {
							if b[i] != pat(i) {
								equal = false
								break
							}
						}
					}
					mark(*dir, fmt.Sprintf("after.%v.%d.%v", exists, len(b), equal))
					if holder != nil {
						_ = holder.Close()
					}
					_ = os.Remove(path)
				}
			}
		}
	}
	fmt.Println("cases", n)
}
