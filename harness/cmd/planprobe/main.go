// planprobe feeds segment lists and arrive/delete histories to the real
// mergeplan.Plan and logs every call for validation by MergePlanTrace.tla.
package main

import (
	"encoding/json"
	"flag"
	"fmt"
	"math/rand"
	"os"
	"time"

	"github.com/blugelabs/bluge/index/mergeplan"
)

type seg struct {
	Id   uint64 `json:"id"`
	Full int64  `json:"full"`
	Live int64  `json:"live"`
}

func (s *seg) ID() uint64      { return s.Id }
func (s *seg) FullSize() int64 { return s.Full }
func (s *seg) LiveSize() int64 { return s.Live }

type opts struct {
	Mpt   int   `json:"mpt"`
	Max   int64 `json:"max"`
	G2    int   `json:"g2"` // twice the tier growth, so that 1.5 and 2.5 can be given
	Width int   `json:"width"`
	Floor int64 `json:"floor"`
}

func (o opts) real() *mergeplan.Options {
	return &mergeplan.Options{MaxSegmentsPerTier: o.Mpt, MaxSegmentSize: o.Max, TierGrowth: float64(o.G2) / 2,
		SegmentsPerMergeTask: o.Width, FloorSegmentSize: o.Floor, ReclaimDeletesWeight: 2.0}
}

var enc *json.Encoder
var calls int

func ids(p *mergeplan.MergePlan) [][]uint64 {
	rv := [][]uint64{}
	if p == nil {
		return rv
	}
	for _, t := range p.Tasks {
		x := []uint64{}
		for _, s := range t.Segments {
			x = append(x, s.ID())
		}
		rv = append(rv, x)
	}
	return rv
}

// planCall runs the real planner twice (determinism) with a watchdog and logs the call.
var nextID uint64

func planCall(o opts, segs []*seg, ev string) (*mergeplan.MergePlan, bool) {
	if segs == nil {
		segs = []*seg{}
	}
	in := make([]mergeplan.Segment, len(segs))
	for i, s := range segs {
		in[i] = s
	}
	type res struct {
		p   *mergeplan.MergePlan
		err error
	}
	ch := make(chan res, 1)
	go func() {
		p, err := mergeplan.Plan(in, o.real())
		ch <- res{p, err}
	}()
	var r res
	select {
	case r = <-ch:
	case <-time.After(20 * time.Second):
		_ = enc.Encode(map[string]any{"ev": ev, "opts": o, "segs": segs, "tasks": [][]uint64{}, "again": [][]uint64{}, "timeout": true, "err": "", "budget": 0, "next": nextID})
		return nil, false
	}
	in2 := make([]mergeplan.Segment, len(segs))
	copy(in2, in)
	p2, _ := mergeplan.Plan(in2, o.real())
	// the budget the real code computes for this input
	var minLive, elig int64 = 1 << 62, 0
	for _, s := range segs {
		if s.Live < minLive {
			minLive = s.Live
		}
		if s.Live < o.Max/2 {
			elig += s.Live
		}
	}
	ro := o.real()
	budget := 0
	if len(segs) > 0 {
		budget = mergeplan.CalcBudget(elig, ro.RaiseToFloorSegmentSize(minLive), ro)
	}
	errs := ""
	if r.err != nil {
		errs = r.err.Error()
	}
	calls++
	_ = enc.Encode(map[string]any{"ev": ev, "opts": o, "segs": segs, "tasks": ids(r.p), "again": ids(p2), "timeout": false, "err": errs, "budget": budget, "next": nextID})
	return r.p, true
}

func main() {
	out := flag.String("out", "", "ndjson output")
	tier := flag.String("tier", "quick", "quick|thorough")
	seed := flag.Int64("seed", 1, "seed")
	flag.Parse()
	f, err := os.Create(*out)
	if err != nil {
		panic(err)
	}
	defer f.Close()
	enc = json.NewEncoder(f)
	rng := rand.New(rand.NewSource(*seed))
	optsList := []opts{
		{Mpt: 10, Max: 5000000, G2: 20, Width: 10, Floor: 2000}, // the defaults
		{Mpt: 2, Max: 40, G2: 4, Width: 3, Floor: 1},
		{Mpt: 3, Max: 100, G2: 6, Width: 2, Floor: 4},
		{Mpt: 1, Max: 64, G2: 4, Width: 4, Floor: 2},
		{Mpt: 10, Max: 1000, G2: 20, Width: 10, Floor: 20},
		// fractional tier growth (1.5, 2.5): the budget staircase rounds every tier down
		{Mpt: 2, Max: 400, G2: 3, Width: 3, Floor: 4},
		{Mpt: 3, Max: 1000, G2: 5, Width: 4, Floor: 2},
		{Mpt: 10, Max: 5000000, G2: 3, Width: 10, Floor: 2000},
		// a floor at or above half the maximum (and above it): "keep a single segment" policies
		{Mpt: 2, Max: 40, G2: 4, Width: 3, Floor: 20},
		{Mpt: 3, Max: 100, G2: 4, Width: 4, Floor: 120},
		// batches well above the floor (the budget's first tier is the smallest segment, not the floor)
		{Mpt: 4, Max: 100000, G2: 4, Width: 4, Floor: 2},
	}
	// (i) contract: exhaustive small lists over a boundary size set
	for _, o := range optsList[1:4] {
		sizes := []int64{0, 1, o.Floor, o.Floor + 1, o.Max/2 - 1, o.Max / 2, o.Max/2 + 1, o.Max - 1, o.Max, o.Max + 5}
		fr := []int64{0, 1, 2} // deleted: none, half, all
		n := 4
		if *tier == "thorough" {
			n = 5
		}
		thorough := *tier == "thorough"
		var rec func(cur []*seg)
		count := 0
		rec = func(cur []*seg) {
			if len(cur) >= 2 {
				// sample: the full product is too large; take every k-th
				count++
				take := count%7 == 0
				if thorough {
					take = len(cur) <= 4 || count%11 == 0
				}
				if take {
					planCall(o, cur, "plan")
				}
				if (thorough && (len(cur) <= 3 || count%13 == 0)) || (!thorough && count%5 == 0) {
					converge(o, cur)
				}
			}
			if len(cur) == n {
				return
			}
			for _, sz := range sizes {
				for _, d := range fr {
					live := sz
					if d == 1 {
						live = sz / 2
					} else if d == 2 {
						live = 0
					}
					if len(cur) > 0 && (sz < cur[len(cur)-1].Full) {
						continue // lists are generated in non-decreasing full size (the planner sorts anyway)
					}
					rec(append(append([]*seg{}, cur...), &seg{Id: uint64(len(cur) + 1), Full: sz, Live: live}))
				}
			}
		}
		if *tier == "quick" {
			sizes = []int64{0, 1, o.Floor + 1, o.Max/2 - 1, o.Max / 2, o.Max - 1, o.Max + 5}
		}
		rec(nil)
	}
	// random large lists with duplicate sizes, default-like options
	nrand := 300
	if *tier == "thorough" {
		nrand = 5000
	}
	for i := 0; i < nrand; i++ {
		o := optsList[rng.Intn(len(optsList))]
		n := 2 + rng.Intn(40)
		if rng.Intn(10) == 0 {
			n = 200 + rng.Intn(1500)
		}
		var segs []*seg
		for j := 0; j < n; j++ {
			var full int64
			switch rng.Intn(5) {
			case 0:
				full = o.Floor
			case 1:
				full = rng.Int63n(o.Max + o.Max/4 + 1)
			case 2:
				full = rng.Int63n(o.Floor*4 + 2)
			case 3:
				full = o.Max/2 - 2 + rng.Int63n(5)
			default:
				full = rng.Int63n(o.Max/10 + 2)
			}
			live := full
			switch rng.Intn(4) {
			case 0:
				live = full - rng.Int63n(full+1)
			case 1:
				if rng.Intn(8) == 0 {
					live = 0
				}
			}
			segs = append(segs, &seg{Id: uint64(j + 1), Full: full, Live: live})
		}
		planCall(o, segs, "plan")
	}
	// (ii) dynamics: arrivals, deletions, the real planner plans, the probe executes
	nh := 60
	if *tier == "thorough" {
		nh = 1500
	}
	for h := 0; h < nh; h++ {
		o := optsList[1+rng.Intn(len(optsList)-1)]
		_ = enc.Encode(map[string]any{"ev": "hreset", "opts": o, "h": h})
		var segs []*seg
		next := uint64(1)
		steps := 20 + rng.Intn(60)
		for s := 0; s < steps; s++ {
			switch k := rng.Intn(10); {
			case k < 5:
				sz := 1 + rng.Int63n(o.Floor*3+3)
				if rng.Intn(6) == 0 {
					sz = rng.Int63n(o.Max/2 + 2)
				}
				segs = append(segs, &seg{Id: next, Full: sz, Live: sz})
				_ = enc.Encode(map[string]any{"ev": "arrive", "id": next, "size": sz})
				next++
			case k < 7 && len(segs) > 0:
				sg := segs[rng.Intn(len(segs))]
				if sg.Live > 0 {
					d := 1 + rng.Int63n(sg.Live)
					sg.Live -= d
					_ = enc.Encode(map[string]any{"ev": "delete", "id": sg.Id, "k": d})
				}
			default:
				segs, next = planAndExec(o, segs, next, "hplan")
			}
		}
		// no more arrivals: the plans must run out of work
		_ = enc.Encode(map[string]any{"ev": "quiet", "n": len(segs)})
		rounds := 0
		for ; rounds <= len(segs)+3; rounds++ {
			before := len(segs)
			var worked bool
			segs, next, worked = planAndExec2(o, segs, next)
			_ = before
			if !worked {
				break
			}
		}
		_ = enc.Encode(map[string]any{"ev": "hend", "rounds": rounds, "n": len(segs)})
	}
	fmt.Println("plan calls", calls)
}

var hcount int

// converge: the given population, no arrivals: plan and execute until the planner has no work
func converge(o opts, start []*seg) {
	hcount++
	_ = enc.Encode(map[string]any{"ev": "hreset", "opts": o, "h": 100000 + hcount})
	var segs []*seg
	next := uint64(1)
	for _, s := range start {
		c := *s
		c.Id = next
		// a segment with deletions arrives as full-size, then loses documents
		_ = enc.Encode(map[string]any{"ev": "arrive", "id": next, "size": c.Full})
		if c.Live < c.Full {
			_ = enc.Encode(map[string]any{"ev": "delete", "id": next, "k": c.Full - c.Live})
		}
		segs = append(segs, &c)
		next++
	}
	_ = enc.Encode(map[string]any{"ev": "quiet", "n": len(segs)})
	rounds := 0
	for ; rounds <= len(start)+3; rounds++ {
		var worked bool
		segs, next, worked = planExec(o, segs, next, "hplan")
		if !worked {
			break
		}
	}
	_ = enc.Encode(map[string]any{"ev": "hend", "rounds": rounds, "n": len(segs)})
}

func planAndExec(o opts, segs []*seg, next uint64, ev string) ([]*seg, uint64) {
	s, n, _ := planExec(o, segs, next, ev)
	return s, n
}

func planAndExec2(o opts, segs []*seg, next uint64) ([]*seg, uint64, bool) {
	return planExec(o, segs, next, "hplan")
}

// planExec: the real planner plans, every task becomes one segment with the summed live size.
func planExec(o opts, segs []*seg, next uint64, ev string) ([]*seg, uint64, bool) {
	nextID = next
	p, ok := planCall(o, segs, ev)
	if !ok || p == nil || len(p.Tasks) == 0 {
		return segs, next, false
	}
	gone := map[uint64]bool{}
	var merged []*seg
	for _, t := range p.Tasks {
		var sum int64
		for _, s := range t.Segments {
			gone[s.ID()] = true
			sum += s.LiveSize()
		}
		if sum > 0 {
			merged = append(merged, &seg{Id: next, Full: sum, Live: sum})
		}
		next++
	}
	var rest []*seg
	for _, s := range segs {
		if !gone[s.Id] {
			rest = append(rest, s)
		}
	}
	return append(rest, merged...), next, true
}
