package main

import (
	"bufio"
	"encoding/json"
	"fmt"
	"os"
	"reflect"
	"sort"
	"strconv"

	"github.com/blugelabs/bluge"
	"verifharness/sq"
)

func sorted(x []int) []int { y := append([]int{}, x...); sort.Ints(y); return y }

func main() {
	ln, _ := strconv.Atoi(os.Args[2])
	f, _ := os.Open(os.Args[1])
	sc := bufio.NewScanner(f)
	sc.Buffer(make([]byte, 1<<20), 1<<28)
	var corpus sq.Corpus
	var block []map[string]any
	i := 0
	for sc.Scan() {
		i++
		var e map[string]any
		_ = json.Unmarshal(sc.Bytes(), &e)
		if e["ev"] == "corpus" {
			if i > ln {
				break
			}
			var ce struct {
				C sq.Corpus `json:"c"`
			}
			_ = json.Unmarshal(sc.Bytes(), &ce)
			corpus = ce.C
			block = nil
			continue
		}
		e["line"] = i
		block = append(block, e)
	}
	w, r, err := sq.Build(corpus, sq.BuildOpts{SegVersion: 1})
	if err != nil {
		panic(err)
	}
	defer w.Close()
	defer r.Close()
	total := 0
	for _, s := range corpus.Segs {
		total += len(s.Docs)
	}
	only := map[int]bool{}
	for _, a := range os.Args[3:] {
		n, _ := strconv.Atoi(a)
		only[n] = true
	}
	for _, e := range block {
		if len(only) > 0 && !only[e["line"].(int)] {
			continue
		}
		q := sq.FromJSON(e["q"].(map[string]any))
		rq, _ := q.Real()
		seqA, _ := sq.IDsOf(r, bluge.NewAllMatches(rq))
		rq2, _ := q.Real()
		seqT, _ := sq.IDsOf(r, bluge.NewTopNSearch(total+3, rq2))
		// fresh reader
		r2, _ := w.Reader()
		rq3, _ := q.Real()
		frA, _ := sq.IDsOf(r2, bluge.NewAllMatches(rq3))
		r2.Close()
		mark := ""
		if !reflect.DeepEqual(sorted(seqA), sorted(frA)) || !reflect.DeepEqual(sorted(seqA), sorted(seqT)) {
			mark = "  <<<<< DIFFERENT"
		}
		fmt.Println("line", e["line"], "seq all", sorted(seqA), "seq topn", sorted(seqT), "fresh all", sorted(frA), mark)
	}
}
