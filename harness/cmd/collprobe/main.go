// collprobe runs real TopN searches (size, offset, sort orders, search-after /
// search-before pages and chains) and logs request, complete match list with
// integer sort keys, and the ids really returned, for CollectorTrace.tla.
package main

import (
	"context"
	"encoding/json"
	"flag"
	"fmt"
	"math/rand"
	"os"
	"sort"
	"strconv"

	"github.com/blugelabs/bluge"
	"github.com/blugelabs/bluge/search"
	"verifharness/sq"
)

const missing = 1000000

type keySpec struct {
	Field  string `json:"field"`
	Desc   bool   `json:"desc"`
	MFirst bool   `json:"mfirst"`
}

type hit struct {
	ID  int   `json:"id"`
	Hit int   `json:"hit"`
	K   []int `json:"k"`
}

var enc *json.Encoder
var nq int

func realOrder(ks []keySpec) search.SortOrder {
	var so search.SortOrder
	for _, k := range ks {
		var s *search.Sort
		if k.Field == "_score" {
			s = search.SortBy(search.DocumentScore())
		} else {
			s = search.SortBy(search.Field(k.Field))
		}
		if k.Desc {
			s.Desc()
		}
		if k.MFirst {
			s.MissingFirst()
		}
		so = append(so, s)
	}
	return so
}

// mkReq builds a top-N request; def: leave the request's sort order alone (the default: score, descending)
func mkReq(n int, q bluge.Query, ks []keySpec, def bool) *bluge.TopNSearch {
	r := bluge.NewTopNSearch(n, q)
	if !def {
		r.SortByCustom(realOrder(ks))
	}
	return r
}

type match struct {
	id    int
	score float64
	sv    [][]byte
}

func run(r *bluge.Reader, req bluge.SearchRequest) ([]match, error) {
	it, err := r.Search(context.Background(), req)
	if err != nil {
		return nil, err
	}
	rv := []match{}
	for {
		m, err := it.Next()
		if err != nil {
			return rv, err
		}
		if m == nil {
			return rv, nil
		}
		id := -1
		_ = r.VisitStoredFields(m.Number, func(field string, value []byte) bool {
			if field == "_id" {
				id, _ = strconv.Atoi(string(value[1:]))
			}
			return true
		})
		var sv [][]byte
		for _, b := range m.SortValue {
			sv = append(sv, append([]byte(nil), b...))
		}
		rv = append(rv, match{id: id, score: m.Score, sv: sv})
	}
}

func ids(ms []match) []int {
	rv := []int{}
	for _, m := range ms {
		rv = append(rv, m.id)
	}
	return rv
}

func errS(e error) string {
	if e == nil {
		return ""
	}
	return e.Error()
}

func main() {
	out := flag.String("out", "", "ndjson output")
	tier := flag.String("tier", "quick", "quick|thorough")
	seed := flag.Int64("seed", 1, "seed")
	flag.Parse()
	f, err := os.Create(*out)
	if err != nil {
		panic(err)
	}
	defer f.Close()
	enc = json.NewEncoder(f)
	r := rand.New(rand.NewSource(*seed))
	ncorp, nord := 40, 10
	if *tier == "thorough" {
		ncorp, nord = 600, 16
	}
	for ci := 0; ci <= ncorp; ci++ {
		nd := 1 + r.Intn(16)
		if r.Intn(8) == 0 {
			nd = 20 + r.Intn(15)
		}
		// the last corpus is a big one: more than 1000 matches, windows beyond the collector's pre-allocation hint
		big := ci == ncorp
		if big {
			nd = 1350 + r.Intn(200)
		}
		c := sq.RandCorpus(r, nd, 1+r.Intn(4), true)
		docs := map[int]sq.Doc{}
		// sorting is decided on single-valued fields (heavy ties: tiny domains)
		for si := range c.Segs {
			for di := range c.Segs[si].Docs {
				d := &c.Segs[si].Docs[di]
				for f, v := range d.N {
					d.N[f] = []int{[]int{-1, 0, 1, 2}[r.Intn(4)]}
					if big {
						d.N[f] = []int{r.Intn(60) - 5}
					}
					_ = v
				}
				for f := range d.D {
					d.D[f] = []int{[]int{0, 60}[r.Intn(2)]}
				}
				for f := range d.K {
					d.K[f] = []sq.Term{sq.Vocab[r.Intn(3)]}
					if r.Intn(8) == 0 {
						d.K[f] = []sq.Term{{}} // the empty string: a value, and the smallest one
					}
					if r.Intn(8) == 0 {
						// values that begin with a four-byte UTF-8 sequence (0xF0 ...): still below the "missing last" sentinel
						d.K[f] = []sq.Term{[]sq.Term{{27}, {28, 1}, {27, 27}}[r.Intn(3)]}
					}
				}
				docs[d.ID] = *d
			}
		}
		w, rd, err := sq.Build(c, sq.BuildOpts{SegVersion: 1 + ci%2})
		if err != nil {
			panic("harness: " + err.Error())
		}
		// keyword ranks
		terms := map[string]bool{}
		for _, d := range docs {
			for _, t := range d.K["k1"] {
				terms[t.String()] = true
			}
		}
		var tl []string
		for t := range terms {
			tl = append(tl, t)
		}
		sort.Strings(tl)
		trank := map[string]int{}
		for i, t := range tl {
			trank[t] = i + 1
		}
		queries := []*sq.Q{{T: "all"}, {T: "term", F: "f1", V: sq.Vocab[r.Intn(3)]}, {T: "match", F: "f1", Op: "or", Terms: []sq.Term{sq.Vocab[0], sq.Vocab[1], sq.Vocab[4]}}}
		if big {
			queries = queries[:1]
		}
		var mks []func() bluge.Query
		for _, q := range queries {
			q := q
			q.Fix()
			mks = append(mks, func() bluge.Query { rq, _ := q.Real(); return rq })
		}
		if !big {
			// NEGATIVE scores (demoting boosts): the score key must order them like any other number
			mks = append(mks, func() bluge.Query {
				return bluge.NewBooleanQuery().
					AddShould(bluge.NewTermQuery(sq.Vocab[0].String()).SetField("f1").SetBoost(-1)).
					AddShould(bluge.NewTermQuery(sq.Vocab[1].String()).SetField("f1").SetBoost(-2.5)).
					AddShould(bluge.NewTermQuery(sq.Vocab[2].String()).SetField("f2").SetBoost(0.75))
			})
		}
		for _, mk := range mks {
			// the complete match list in index order, with scores
			base, err := run(rd, bluge.NewAllMatches(mk()))
			if err != nil {
				panic("harness: " + err.Error())
			}
			// dense score ranks
			var scores []float64
			for _, m := range base {
				scores = append(scores, m.score)
			}
			sort.Float64s(scores)
			srank := func(s float64) int {
				n := 0
				var last float64
				for i, x := range scores {
					if i == 0 || x != last {
						n++
						last = x
					}
					if x == s {
						return n
					}
				}
				return 0
			}
			for oi := 0; oi <= nord && (!big || oi < 2); oi++ {
				var ks []keySpec
				fields := []string{"n1", "k1", "t1", "_score"}
				r.Shuffle(len(fields), func(i, j int) { fields[i], fields[j] = fields[j], fields[i] })
				for _, f := range fields[:1+r.Intn(3)] {
					ks = append(ks, keySpec{Field: f, Desc: r.Intn(2) == 0, MFirst: r.Intn(2) == 0})
				}
				// the last round leaves the sort order to the engine: requests that never call SortBy (score, descending),
				// including their after / before pages
				def := oi == nord
				if def {
					ks = []keySpec{{Field: "_score", Desc: true}}
				}
				keyOf := func(m match) []int {
					d := docs[m.id]
					var k []int
					for _, s := range ks {
						switch s.Field {
						case "n1":
							if len(d.N["n1"]) == 0 {
								k = append(k, missing)
							} else {
								k = append(k, d.N["n1"][0])
							}
						case "t1":
							if len(d.D["t1"]) == 0 {
								k = append(k, missing)
							} else {
								k = append(k, d.D["t1"][0])
							}
						case "k1":
							if len(d.K["k1"]) == 0 {
								k = append(k, missing)
							} else {
								k = append(k, trank[d.K["k1"][0].String()])
							}
						case "_score":
							k = append(k, srank(m.score))
						}
					}
					return k
				}
				hits := []hit{}
				for i, m := range base {
					hits = append(hits, hit{ID: m.id, Hit: i + 1, K: keyOf(m)})
				}
				order := []map[string]bool{}
				for _, s := range ks {
					order = append(order, map[string]bool{"desc": s.Desc, "mfirst": s.MFirst})
				}
				// known finding (D17): with ascending + missing-first (or descending + missing-last) on a text key, documents
				// whose value is the empty string are placed on the wrong side of the documents that lack the field
				// (the low "missing" sentinel {0x00} sorts above ""); such calls are marked
				scn := ""
				for _, sp := range ks {
					if sp.Field == "k1" && sp.Desc != sp.MFirst {
						hasEmpty, hasMissing := false, false
						for _, m := range base {
							if kv := docs[m.id].K["k1"]; len(kv) == 0 {
								hasMissing = true
							} else if len(kv[0]) == 0 {
								hasEmpty = true
							}
						}
						if hasEmpty && hasMissing {
							scn = "empty-string-vs-missing"
						}
					}
				}
				common := func(ev string) map[string]any {
					nq++
					e := map[string]any{"ev": ev, "hits": hits, "order": order, "keys": ks}
					if scn != "" {
						e["scn"] = scn
					}
					return e
				}
				// full ranking with real sort values (for after/before keys)
				full, ferr := run(rd, mkReq(len(base)+5, mk(), ks, def))
				e := common("topn")
				e["n"], e["from"], e["res"], e["err"] = len(base)+5, 0, ids(full), errS(ferr)
				_ = enc.Encode(e)
				// (n, from) grid around the store switch at 10
				for k := 0; k < 6; k++ {
					n := []int{0, 1, 2, 3, 5, 9, 10, 11, 13, 40}[r.Intn(10)]
					from := []int{0, 0, 1, 2, 5, 9, 10, 11, 30}[r.Intn(9)]
					if big {
						if k >= 3 {
							break
						}
						n = []int{1001, 1500, 120, 300, 999}[r.Intn(5)]
						from = []int{0, 1, 950, 1000, 1040}[r.Intn(5)]
					}
					res, err := run(rd, mkReq(n, mk(), ks, def).SetFrom(from))
					e := common("topn")
					e["n"], e["from"], e["res"], e["err"] = n, from, ids(res), errS(err)
					_ = enc.Encode(e)
				}
				if len(full) == 0 || ferr != nil || big {
					continue
				}
				byID := map[int]match{}
				for _, m := range full {
					byID[m.id] = m
				}
				// single pages after / before the key of a random match
				for k := 0; k < 3; k++ {
					piv := full[r.Intn(len(full))]
					n := []int{0, 1, 2, 3, 9, 10, 11, 30}[r.Intn(8)]
					res, err := run(rd, mkReq(n, mk(), ks, def).After(piv.sv))
					e := common("after")
					e["n"], e["key"], e["res"], e["err"] = n, keyOf(piv), ids(res), errS(err)
					_ = enc.Encode(e)
					res, err = run(rd, mkReq(n, mk(), ks, def).Before(piv.sv))
					e = common("before")
					e["n"], e["key"], e["res"], e["err"] = n, keyOf(piv), ids(res), errS(err)
					_ = enc.Encode(e)
				}
				// chains with a sort order that distinguishes all matches: add _id as the last key
				// (ids are unique); page sizes 1..4 and 10, 11
				p := []int{1, 2, 3, 4, 10, 11}[r.Intn(6)]
				var pages [][]int
				var cerr error
				var after [][]byte
				for guard := 0; guard < 100; guard++ {
					req := mkReq(p, mk(), ks, def)
					if after != nil {
						req.After(after)
					}
					res, err := run(rd, req)
					if err != nil {
						cerr = err
						break
					}
					if len(res) == 0 {
						break
					}
					pages = append(pages, ids(res))
					after = res[len(res)-1].sv
				}
				if pages == nil {
					pages = [][]int{}
				}
				e = common("chain")
				e["dir"], e["n"], e["pages"], e["last"], e["err"] = "after", p, pages, []int{}, errS(cerr)
				_ = enc.Encode(e)
				// before-chain starting from the last match of the ranking
				pages = [][]int{}
				before := full[len(full)-1].sv
				for guard := 0; guard < 100; guard++ {
					res, err := run(rd, mkReq(p, mk(), ks, def).Before(before))
					if err != nil {
						cerr = err
						break
					}
					if len(res) == 0 {
						break
					}
					pages = append(pages, ids(res))
					before = res[0].sv
				}
				e = common("chain")
				e["dir"], e["n"], e["pages"], e["last"], e["err"] = "before", p, pages, []int{full[len(full)-1].id}, errS(cerr)
				_ = enc.Encode(e)
			}
		}
		rd.Close()
		w.Close()
	}
	fmt.Println("searches", nq)
}
