\* the Persist protocol of the repaired code over all sizes x pre-states x failure points x power loss
SPECIFICATION Spec
CONSTANTS
  MaxSize = 9
  MaxPre = 12
  Chunk = 3
  Truncate = TRUE
  SyncOnPersist = TRUE
INVARIANTS TypeOK ExactOnSuccess SyncedOnSuccess DurableAfterSuccess NothingLeftOnFailure RefusedLeavesFileIntact
CHECK_DEADLOCK FALSE
