---------------------------- MODULE OfflineTrace ----------------------------
(***************************************************************************)
(* Trace validation of the real OfflineWriter against Offline.tla.         *)
(* cmd/offlineprobe logs every directory operation of offline builds       *)
(* (logging wrapper of the file-system directory: Persist with the content *)
(* parsed back from the persisted bytes, Load with a handle number, handle *)
(* closes, Remove), the inserted documents, the result of Close, and what  *)
(* OpenReader shows afterwards.  The trace drives Offline's variables; the *)
(* file / handle state is adopted from the events, the ghost `all` only    *)
(* from the OInsert events; Offline's invariants and event clauses are     *)
(* evaluated after every event and failed clauses recorded (the trace goes *)
(* on).  STRICT_ clauses compare with the exact step Offline.tla predicts  *)
(* (ids, order of documents, the merge inputs): model conformance, not a   *)
(* verdict.                                                                *)
(***************************************************************************)
EXTENDS Offline, Json, TLCExt

CONSTANT TraceFile
TraceLog == ndJsonDeserialize(TraceFile)
N == Len(TraceLog)

VARIABLES l, viol, tv
tvars == <<vars, l, viol, tv>>
Ev == TraceLog[l]
Has(r, f) == f \in DOMAIN r

TvInit == [run |-> 0, bs |-> 0, fault |-> FALSE, failedDocs |-> {}, closedOK |-> FALSE, closeErr |-> FALSE]

Report(c) == PrintT(<<"VIOL", c, l, tv.run>>)
AddViol(S) == viol \cup {<<c, tv.run>> : c \in {x \in S : <<x, tv.run>> \notin viol /\ Report(x)}}

Step(name) == l <= N /\ Ev.ev = name /\ l' = l + 1
DocOf(j) == <<j[1], j[2], j[3]>>
DocsOf(j) == [i \in 1..Len(j) |-> DocOf(j[i])]
NoDup(s) == Cardinality(SetOf(s)) = Len(s)
SameDocs(a, b) == Len(a) = Len(b) /\ SetOf(a) = SetOf(b)   \* documents are distinct
OpenHandles == {i \in DOMAIN handles : handles[i].open}
SegDocs(ids) == Concat([i \in DOMAIN ids |-> IF ids[i] \in DOMAIN files THEN files[ids[i]] ELSE <<>>])
\* what must be in a complete index: everything inserted, except that documents of an Insert call that
\* returned an error may or may not be there (the caller was told)
Complete(docs) == /\ NoDup(docs)
                  /\ SetOf(docs) \subseteq SetOf(all)
                  /\ SetOf(all) \ tv.failedDocs \subseteq SetOf(docs)
SnapOK(e) == /\ \A i \in DOMAIN snap[e] : snap[e][i] \in DOMAIN files
             /\ Complete(SegDocs(snap[e]))
WithoutSeq(s, drop) == SelectSeq(s, LAMBDA x : x \notin SetOf(drop))

TraceInit == Init /\ l = 1 /\ viol = {} /\ tv = TvInit

TReset ==
  /\ Step("Reset")
  /\ buffer' = <<>> /\ segIDs' = <<>> /\ segCount' = 0 /\ files' = <<>> /\ snap' = <<>>
  /\ handles' = <<>> /\ pc' = "open" /\ mg' = NoMerge /\ all' = <<>>
  /\ tv' = [TvInit EXCEPT !.run = Ev.run, !.bs = Ev.bs, !.fault = (Ev.fault >= 0)]
  /\ viol' = viol

Ignored == {"PersistBegin", "OOpenErr"}
TSkip == /\ l <= N /\ Ev.ev \in Ignored /\ l' = l + 1 /\ UNCHANGED <<vars, viol, tv>>

TInsert ==
  /\ Step("OInsert")
  /\ buffer' = Append(buffer, DocOf(Ev.d)) /\ all' = Append(all, DocOf(Ev.d))
  /\ UNCHANGED <<segIDs, segCount, files, snap, handles, pc, mg, tv, viol>>

TInsertErr ==
  /\ Step("OInsertErr")
  /\ tv' = [tv EXCEPT !.failedDocs = @ \cup SetOf(buffer)]
  /\ viol' = AddViol(IF ~tv.fault THEN {"C08_offline_insert_failed_without_fault"} ELSE {})
  /\ UNCHANGED vars

\* a segment file was written: a flushed batch (while documents are buffered) or the result of a merge round
\* (the inputs of the round are the files loaded since the previous round: mg.ids)
TPersistSeg ==
  /\ Step("PersistEnd") /\ Ev.kind = ".seg"
  /\ IF Ev.err # "" THEN UNCHANGED <<vars, tv>> /\ viol' = viol
     ELSE LET docs == IF Has(Ev, "docs") THEN DocsOf(Ev.docs) ELSE <<>>
              flush == buffer # <<>>
              total == Len(segIDs) + Len(mg.ids)
          IN /\ files' = Put(files, Ev.id, docs)
             /\ segCount' = Ev.id + 1
             /\ segIDs' = Append(segIDs, Ev.id)
             /\ IF flush THEN buffer' = <<>> /\ mg' = mg
                ELSE buffer' = buffer /\ mg' = [mg EXCEPT !.persisted = TRUE]
             /\ UNCHANGED <<snap, handles, pc, all, tv>>
             /\ viol' = AddViol(
                  (IF Has(Ev, "parse") THEN {"C08_offline_segment_unreadable"} ELSE {})
                  \cup (IF flush /\ ~SameDocs(docs, buffer) THEN {"C08_offline_batch_differs_from_inserted"} ELSE {})
                  \cup (IF ~flush /\ ~(SetOf(docs) = UNION {SetOf(files[id]) : id \in SetOf(mg.ids) \cap DOMAIN files}
                                   /\ Len(docs) = SumLen(SetOf(mg.ids) \cap DOMAIN files)) THEN {"C08_offline_merge_changed_content"} ELSE {})
                  \cup (IF ~O_NothingLost' THEN {"C08_offline_documents_lost"} ELSE {})
                  \cup (IF flush /\ docs # buffer THEN {"STRICT_offline_batch_order"} ELSE {})
                  \cup (IF ~flush /\ docs # SegDocs(mg.ids) THEN {"STRICT_offline_merge_order"} ELSE {})
                  \cup (IF ~flush /\ Len(mg.ids) # (IF MergeMax < total THEN MergeMax ELSE total) THEN {"STRICT_offline_merge_width"} ELSE {})
                  \cup (IF Ev.id # segCount THEN {"STRICT_offline_segment_id"} ELSE {})
                  \cup (IF flush /\ pc = "open" /\ Len(buffer) # tv.bs + 1 THEN {"STRICT_offline_batch_size"} ELSE {}))

\* the snapshot: names the segment files that make up the index
TPersistSnp ==
  /\ Step("PersistEnd") /\ Ev.kind = ".snp"
  /\ IF Ev.err # "" THEN UNCHANGED <<vars, tv>> /\ viol' = viol
     ELSE /\ snap' = Put(snap, Ev.id, [i \in 1..Len(Ev.ents) |-> Ev.ents[i].id])
          /\ mg' = NoMerge
          /\ UNCHANGED <<buffer, segIDs, segCount, files, handles, pc, all, tv>>
          /\ viol' = AddViol(
               (IF Has(Ev, "parse") THEN {"C08_offline_snapshot_unreadable"} ELSE {})
               \cup (IF \E e \in {Ev.id} : ~SnapOK(e)' THEN {"C08_offline_snapshot_incomplete"} ELSE {})
               \cup (IF \E i \in 1..Len(Ev.ents) : Len(Ev.ents[i].del) > 0 THEN {"C08_offline_snapshot_with_deletions"} ELSE {})
               \cup (IF buffer # <<>> \/ Len(segIDs) > 1 THEN {"STRICT_offline_snapshot_before_merges_done"} ELSE {})
               \cup (IF Len(segIDs) = 1 /\ Ev.id # segIDs[1] THEN {"STRICT_offline_snapshot_epoch"} ELSE {}))

\* a segment file is loaded: the last one for the snapshot, otherwise the next input of a merge round
\* (doMerge takes the inputs off the front of its list)
TLoad ==
  /\ Step("LoadEnd")
  /\ IF Ev.err # "" THEN UNCHANGED <<vars, tv>> /\ viol' = viol
     ELSE LET final == Len(segIDs) = 1 /\ buffer = <<>> /\ (mg.ids = <<>> \/ mg.persisted)
              newround == mg.persisted \/ mg.ids = <<>>
          IN /\ handles' = Append(handles, [id |-> Ev.id, open |-> TRUE, h |-> Ev.h])
             /\ IF final THEN UNCHANGED <<segIDs, mg>>
                ELSE /\ segIDs' = SelectSeq(segIDs, LAMBDA x : x # Ev.id)
                     /\ mg' = [NoMerge EXCEPT !.ids = (IF newround THEN <<>> ELSE mg.ids) \o <<Ev.id>>]
             /\ UNCHANGED <<buffer, segCount, files, snap, pc, all, tv>>
             /\ viol' = AddViol((IF Ev.id \notin DOMAIN files THEN {"DIV_offline_loaded_unknown_file"} ELSE {})
                                \cup (IF segIDs = <<>> \/ Ev.id # segIDs[1] THEN {"STRICT_offline_load_order"} ELSE {}))

THandleClose ==
  /\ Step("HandleClose")
  /\ handles' = [i \in DOMAIN handles |-> IF handles[i].h = Ev.h THEN [handles[i] EXCEPT !.open = FALSE] ELSE handles[i]]
  /\ UNCHANGED <<buffer, segIDs, segCount, files, snap, pc, mg, all, tv>>
  /\ viol' = AddViol(IF Ev.n > 1 THEN {"C11_offline_handle_closed_twice"} ELSE {})

TRemove ==
  /\ Step("RemoveEnd")
  /\ IF Ev.err # "" THEN UNCHANGED <<vars, tv>> /\ viol' = viol
     ELSE /\ files' = Drop(files, Ev.id)
          /\ UNCHANGED <<buffer, segIDs, segCount, snap, handles, pc, mg, all, tv>>
          /\ viol' = AddViol(
               (IF \E i \in SetOf(segIDs) : i = Ev.id THEN {"C08_offline_removed_live_segment"} ELSE {})
               \cup (IF ~O_NothingLost' THEN {"C08_offline_documents_lost"} ELSE {})
               \cup (IF \E i \in OpenHandles : handles[i].id = Ev.id THEN {"NOTE_offline_removed_file_with_open_handle"} ELSE {}))

TCloseCall ==
  /\ Step("OCloseCall")
  /\ pc' = "closing"
  /\ UNCHANGED <<buffer, segIDs, segCount, files, snap, handles, mg, all, tv, viol>>

TCloseReturn ==
  /\ Step("OCloseReturn")
  /\ pc' = IF Ev.err = "" THEN "closed" ELSE "failed"
  /\ tv' = [tv EXCEPT !.closedOK = (Ev.err = ""), !.closeErr = (Ev.err # "")]
  /\ UNCHANGED <<buffer, segIDs, segCount, files, snap, handles, mg, all>>
  /\ viol' = AddViol(
       (IF Ev.err # "" /\ ~tv.fault THEN {"C08_offline_close_failed_without_fault"} ELSE {})
       \cup (IF Ev.err = "" /\ snap = <<>> THEN {"C08_offline_closed_without_snapshot"} ELSE {})
       \cup (IF Ev.err = "" /\ snap # <<>> /\ ~SnapOK(Newest) THEN {"C08_offline_snapshot_incomplete"} ELSE {})
       \cup (IF Ev.err = "" /\ OpenHandles # {} THEN {"C11_offline_handle_leaked"} ELSE {})
       \cup (IF Ev.err # "" /\ ~O_HandlesReleased' THEN {"C11_offline_handle_leaked_on_error_path"} ELSE {})
       \cup (IF Ev.err = "" /\ snap # <<>> /\ DOMAIN files # SetOf(snap[Newest]) THEN {"NOTE_offline_leftover_files"} ELSE {})
       \cup (IF Ev.err = "" /\ ~tv.fault /\ ~O_Closed' THEN {"STRICT_offline_closed_state"} ELSE {}))

TListing ==
  /\ Step("OListing")
  /\ UNCHANGED <<vars, tv>>
  /\ viol' = AddViol(IF ~tv.fault /\ (SetOf(Ev.segs) # DOMAIN files \/ SetOf(Ev.snps) # DOMAIN snap)
                     THEN {"DIV_offline_directory_listing_differs_from_model"} ELSE {})

\* OpenReader on the result: an offline index is complete (after a successful Close) or absent / complete (otherwise)
TReopened ==
  /\ Step("OReopened")
  /\ UNCHANGED <<vars, tv>>
  /\ viol' = AddViol(
       (IF tv.closedOK /\ Ev.err # "" THEN {"C08_offline_reopen_failed"} ELSE {})
       \cup (IF Ev.err = "" /\ (~Complete(DocsOf(Ev.docs)) \/ Ev.count # Len(Ev.docs))
             THEN {IF tv.closedOK THEN "C08_offline_reopened_content_differs" ELSE "C08_offline_partial_index_visible"} ELSE {}))

TraceNext == TReset \/ TSkip \/ TInsert \/ TInsertErr \/ TPersistSeg \/ TPersistSnp \/ TLoad \/ THandleClose \/ TRemove
               \/ TCloseCall \/ TCloseReturn \/ TListing \/ TReopened
TraceSpec == TraceInit /\ [][TraceNext]_tvars
TraceAccepted ==
  /\ IF TLCGet("stats").diameter - 1 = N THEN TRUE
     ELSE Print(<<"TRACE-NOT-CONSUMED", TLCGet("stats").diameter - 1, N>>, FALSE)
  /\ PrintT(<<"TRACE-DONE", N>>)
=============================================================================
