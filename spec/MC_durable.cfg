\* one safe client, 3 invocations, one crash, one merge task: C01 C02 C03 C11
SPECIFICATION Spec
CONSTANTS
  Ids = {"a", "b"}
  Clients = {c1}
  Readers = {}
  Shapes <- ShapesA
  Safe = TRUE
  WithCallbacks = FALSE
  MinMemMerge = 2
  KeepN = 1
  TruncateOnPersist = TRUE
  WaitForSwap = TRUE
  MaxInv = 3
  MaxCrash = 1
  MaxMerges = 1
  MaxFaults = 0
  MaxReaderOpens = 0
  AllowClose = FALSE
VIEW View
CONSTRAINT Bound
INVARIANTS TypeOK C01_RootIsAbstract C01_SegIdsUnique C01_UpdateUnique C02_AckedDurable C03_DiskIsPrefix C03_Recoverable
  C03_EveryLoadableIsPrefix C04_NoUseAfterClose C11_Retained C11_AtLeastN C11_RootFiles C11_OpenHandlesHaveFiles C11_HandlesBalanced C11_Lock
PROPERTIES C06_Invisible C11_RemoveSafe
CHECK_DEADLOCK FALSE
