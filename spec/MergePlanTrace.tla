---------------------------- MODULE MergePlanTrace ----------------------------
(***************************************************************************)
(* Validates logged calls of the REAL mergeplan.Plan (harness              *)
(* cmd/planprobe) against the contract PlanOK of MergePlan.tla, and the    *)
(* arrive / delete / plan / execute histories against the dynamics:        *)
(* every task makes progress, the population follows Execute, and once     *)
(* arrivals stop the planner runs out of work within |segments| rounds,    *)
(* at which point the mergeable population is within the budget.           *)
(***************************************************************************)
EXTENDS Integers, Sequences, FiniteSets, TLC, Json

CONSTANT TraceFile
VARIABLES l, viol, pop, quietAt, rounds, hist

\* MergePlan's operators, instantiated with dummy constants (only the
\* option-parameterised operators are used here)
MP == INSTANCE MergePlan WITH MaxSegmentsPerTier <- 1, MaxSegmentSize <- 1, TierGrowth <- 1, SegmentsPerMergeTask <- 1,
                              FloorSegmentSize <- 1, ArriveSizes <- {}, MaxSegs <- 0, MaxArrivals <- 0,
                              segs <- pop, arrivals <- 0

TraceLog == ndJsonDeserialize(TraceFile)
N == Len(TraceLog)
Ev == TraceLog[l]
vars == <<l, viol, pop, quietAt, rounds, hist>>
Range(s) == {s[i] : i \in DOMAIN s}

Report(c) == PrintT(<<"VIOL", c, l, hist>>)
AddViol(S) == viol \cup {<<c, l>> : c \in {x \in S : Report(x)}}

SegSet(j) == {[id |-> j[i].id, full |-> j[i].full, live |-> j[i].live] : i \in DOMAIN j}
ById(S, id) == CHOOSE s \in S : s.id = id
TaskSets(S, tasks) == [i \in DOMAIN tasks |-> {ById(S, tasks[i][k]) : k \in DOMAIN tasks[i]}]
KnownIds(S, tasks) == \A i \in DOMAIN tasks : \A k \in DOMAIN tasks[i] : \E s \in S : s.id = tasks[i][k]
NoRepeat(tasks) == \A i \in DOMAIN tasks : \A a, b \in DOMAIN tasks[i] : a # b => tasks[i][a] # tasks[i][b]

\* the clauses of one planner call
PlanClauses(e) ==
  LET o == e.opts
      S == SegSet(e.segs)
  IN IF e.timeout THEN {"C19_planner_did_not_terminate"}
     ELSE IF e.err # "" THEN {"C19_planner_error_on_sane_input"}
     ELSE IF ~KnownIds(S, e.tasks) THEN {"C19_task_contains_unknown_segment"}
     ELSE LET ts == TaskSets(S, e.tasks)
              left == MP!Eligible(o, S) \ MP!TaskUnion(ts)
          IN (IF ~NoRepeat(e.tasks) \/ \E i, j \in DOMAIN ts : i # j /\ ts[i] \cap ts[j] # {}
              THEN {"C19_segment_in_two_tasks"} ELSE {})
             \cup (IF \E i \in DOMAIN ts : \E s \in ts[i] : ~(s.live < o.max \div 2)
                   THEN {"C19_task_touches_segment_above_half_max"} ELSE {})
             \cup (IF \E i \in DOMAIN ts : ~MP!AllEmpty(ts[i]) /\ ~(MP!SumLive(ts[i]) < o.max)
                   THEN {"C19_task_exceeds_max_segment_size"} ELSE {})
             \cup (IF \E i \in DOMAIN ts : ~MP!AllEmpty(ts[i]) /\ Cardinality(ts[i]) > o.width
                   THEN {"C19_task_too_wide"} ELSE {})
             \cup (IF e.tasks # e.again THEN {"C19_plan_not_deterministic"} ELSE {})
             \cup (IF ~(Cardinality(S) <= 1 \/ left = {} \/ Cardinality(left) + Len(ts) <= MP!Budget(o, S))
                   THEN {"C19_stopped_while_over_budget"} ELSE {})
             \cup (IF Cardinality(S) >= 1 /\ e.budget # MP!Budget(o, S) THEN {"DIV_budget_transcription"} ELSE {})

Init == l = 1 /\ viol = {} /\ pop = {} /\ quietAt = -1 /\ rounds = 0 /\ hist = 0
Step(name) == l <= N /\ Ev.ev = name /\ l' = l + 1

TPlan == /\ Step("plan")
         /\ viol' = AddViol(PlanClauses(Ev))
         /\ UNCHANGED <<pop, quietAt, rounds, hist>>

THReset == /\ Step("hreset") /\ pop' = {} /\ quietAt' = -1 /\ rounds' = 0 /\ hist' = hist + 1 /\ viol' = viol
TArrive == /\ Step("arrive")
           /\ pop' = pop \cup {[id |-> Ev.id, full |-> Ev.size, live |-> Ev.size]}
           /\ UNCHANGED <<viol, quietAt, rounds, hist>>
TDelete == /\ Step("delete")
           /\ LET s == ById(pop, Ev.id) IN pop' = (pop \ {s}) \cup {[s EXCEPT !.live = s.live - Ev.k]}
           /\ UNCHANGED <<viol, quietAt, rounds, hist>>

\* a plan inside a history: the logged input must be the modelled population
\* (binding), every task must make progress, the population follows Execute
THPlan ==
  /\ Step("hplan")
  /\ LET S == SegSet(Ev.segs)
         okIds == ~Ev.timeout /\ Ev.err = "" /\ KnownIds(S, Ev.tasks)
         ts == IF okIds THEN TaskSets(S, Ev.tasks) ELSE <<>>
         maxId == IF pop = {} THEN 0 ELSE CHOOSE m \in {s.id : s \in pop} : \A s \in pop : s.id <= m
     IN /\ viol' = AddViol(PlanClauses(Ev)
                   \cup (IF S # pop THEN {"DIV_history_population"} ELSE {})
                   \* (a no-op task -- one segment, nothing to reclaim -- is wasteful but allowed as long
                   \*  as the plans still run out of work; it is reported as a note, not as a violation)
                   \cup (IF okIds /\ \E i \in DOMAIN ts : ~MP!Progress(ts[i]) /\ ~MP!AllEmpty(ts[i])
                         THEN {"NOTE_task_makes_no_progress"} ELSE {})
                   \cup (IF quietAt >= 0 /\ okIds /\ Len(ts) > 0 /\ rounds + 1 > quietAt + 1
                         THEN {"C19_does_not_converge"} ELSE {})
                   \cup (IF quietAt >= 0 /\ okIds /\ Len(ts) = 0 /\ ~MP!PlanOK(Ev.opts, S, <<>>)
                         THEN {"C19_rest_state_over_budget"} ELSE {}))
        /\ pop' = IF okIds /\ Len(ts) > 0
                  THEN (S \ MP!TaskUnion(ts)) \cup
                       {[id |-> Ev.next + i - 1, full |-> MP!SumLive(ts[i]), live |-> MP!SumLive(ts[i])] :
                           i \in {j \in DOMAIN ts : MP!SumLive(ts[j]) > 0}}
                  ELSE pop
        /\ rounds' = IF quietAt >= 0 THEN rounds + 1 ELSE rounds
  /\ UNCHANGED <<quietAt, hist>>

TQuiet == /\ Step("quiet") /\ quietAt' = Cardinality(pop) /\ rounds' = 0 /\ UNCHANGED <<viol, pop, hist>>
THEnd == /\ Step("hend") /\ UNCHANGED <<viol, pop, quietAt, rounds, hist>>

Next == TPlan \/ THReset \/ TArrive \/ TDelete \/ THPlan \/ TQuiet \/ THEnd
TraceSpec == Init /\ [][Next]_vars
TraceAccepted ==
  /\ IF TLCGet("stats").diameter - 1 = N THEN TRUE
     ELSE Print(<<"TRACE-NOT-CONSUMED", TLCGet("stats").diameter - 1, N>>, FALSE)
  /\ PrintT(<<"TRACE-DONE", N>>)
=============================================================================
