------------------------------ MODULE BlugeCore ------------------------------
(***************************************************************************)
(* The bluge index writer as the code builds it (index/writer.go,          *)
(* introducer.go, persister.go, merge.go, deletion.go, directory_fs.go).   *)
(*                                                                         *)
(* One action per critical section / linearization point of the Go code;   *)
(* the Go site is named in a comment at each action.  Ghost variables      *)
(* (applied, epochLen, acked, cbAcked, batchOf, retBefore) carry the       *)
(* abstract index so that the listed properties C01..C06, C11, C14, C15    *)
(* are plain invariants / action properties / leads-to formulas.           *)
(*                                                                         *)
(* The root-transition functions (AfterBatch, MergedRoot, SwapRoot, ...)   *)
(* are pure operators so that BlugeTrace.tla can compare what the code     *)
(* logged with what the specification computes.                            *)
(***************************************************************************)
EXTENDS Integers, Sequences, FiniteSets, TLC

CONSTANTS
  Ids,               \* document ids
  Clients,           \* client goroutines calling Batch
  Readers,           \* reader goroutines
  Shapes,            \* batch shapes [del : SUBSET Ids, add : Seq(Ids)]
  Safe,              \* TRUE = default (safe) batches, FALSE = UnsafeBatch
  WithCallbacks,     \* every batch carries a persisted-callback
  MinMemMerge,       \* MinSegmentsForInMemoryMerge
  KeepN,             \* KeepNLatestDeletionPolicy(n)
  TruncateOnPersist, \* TRUE = repaired Persist (fix: truncate); FALSE demonstrates defect D2
  WaitForSwap,       \* TRUE = repaired persister (fix: it waits for a persist swap it handed over also while
                     \* closing); FALSE demonstrates the defect: Close between hand-over and application
  MaxInv, MaxCrash, MaxMerges, MaxFaults, MaxReaderOpens,
  AllowClose

VARIABLES
  root,        \* [epoch, ents]; ents \in Seq([id, docs, del, pers, h])
  nextEpoch, nextSeg, nextUid, nextH,
  cl,          \* [Clients -> client record]
  pend,        \* uids whose persisted channel is attached to the root (rootPersisted)
  cbs,         \* uids whose persisted callback is attached to the root (persistedCallbacks)
  ps,          \* persister record
  mg,          \* merger record
  fsnp, fseg,  \* durable files: epoch -> [st, size, ents] ; segid -> [st, size, docs]
  pol,         \* deletion policy [live, deletable, liveSegs, known]
  snaps,       \* live snapshot objects: epoch -> [refs, hs]
  inst,        \* loaded file-segment instances: h -> [seg, refs, open, closes]
  rd,          \* [Readers -> [st, epoch, ents, n]]
  life,        \* [up, closing, introExited, lock, closed]
  applied,     \* ghost: uids in introduction (= linearization) order
  epochLen,    \* ghost: epoch -> Len(applied) when that root was made
  acked,       \* ghost: uids whose safe Batch call returned nil
  cbAcked,     \* ghost: uids whose persisted callback was invoked with nil
  batchOf,     \* ghost: uid -> shape
  retBefore,   \* ghost: uid -> set of uids whose call had returned before uid was invoked
  errd,        \* ghost: uids whose call returned an error / callback got an error
  cnt          \* bounded counters [crashes, merges, faults, ropens, asyncErrs]

vars == <<root, nextEpoch, nextSeg, nextUid, nextH, cl, pend, cbs, ps, mg, fsnp, fseg,
          pol, snaps, inst, rd, life, applied, epochLen, acked, cbAcked, batchOf,
          retBefore, errd, cnt>>

\* everything except what an action typically touches is listed explicitly in
\* each action's UNCHANGED, so that TLC reports a missing frame condition.

-----------------------------------------------------------------------------
\* generic helpers

Range(s) == {s[i] : i \in DOMAIN s}
Put(f, k, v) == [x \in DOMAIN f \cup {k} |-> IF x = k THEN v ELSE f[x]]
Restrict(f, S) == [x \in S |-> f[x]]
Max(S) == CHOOSE x \in S : \A y \in S : y <= x
Min(S) == CHOOSE x \in S : \A y \in S : x <= y
SeqSum(s) == LET RECURSIVE f(_)
                 f(i) == IF i = 0 THEN 0 ELSE s[i] + f(i-1)
             IN f(Len(s))
RECURSIVE Concat(_)
Concat(ss) == IF ss = <<>> THEN <<>> ELSE Head(ss) \o Concat(Tail(ss))
RECURSIVE SortedSeq(_)
SortedSeq(S) == IF S = {} THEN <<>> ELSE LET m == Min(S) IN <<m>> \o SortedSeq(S \ {m})

-----------------------------------------------------------------------------
\* documents, entries, visibility

\* positions (1-based) of docs whose id is named in dels -- DocsMatchingTerms
Match(docs, dels) == {p \in 1..Len(docs) : docs[p][1] \in dels}
Live(e) == (1..Len(e.docs)) \ e.del
LiveDocsSeq(e) == LET RECURSIVE f(_)
                      f(p) == IF p > Len(e.docs) THEN <<>>
                              ELSE (IF p \in e.del THEN <<>> ELSE <<e.docs[p]>>) \o f(p+1)
                  IN f(1)
Vis(ents) == UNION {{e.docs[p] : p \in Live(e)} : e \in Range(ents)}
EntIds(ents) == {e.id : e \in Range(ents)}
EntOf(ents, id) == CHOOSE e \in Range(ents) : e.id = id
HsOf(ents) == {e.h : e \in {x \in Range(ents) : x.h # 0}}
MemEnts(ents) == SelectSeq(ents, LAMBDA e : ~e.pers)
PersEnts(ents) == SelectSeq(ents, LAMBDA e : e.pers)

\* ---- the abstract index --------------------------------------------------
DocsOf(uid) == LET b == batchOf[uid] IN {<<b.add[k], uid, k>> : k \in 1..Len(b.add)}
AbsStep(prev, uid) == {d \in prev : d[1] \notin batchOf[uid].del} \cup DocsOf(uid)
RECURSIVE Abs(_)
Abs(us) == IF us = <<>> THEN {}
           ELSE AbsStep(Abs(SubSeq(us, 1, Len(us)-1)), us[Len(us)])
AbsPrefix(k) == Abs(SubSeq(applied, 1, k))
PosOf(u) == CHOOSE i \in 1..Len(applied) : applied[i] = u
IsApplied(u) == \E i \in 1..Len(applied) : applied[i] = u

-----------------------------------------------------------------------------
\* reference counting (index/snapshot.go addRef/decRef, segment_plugin.go
\* closeOnLastRefCounter).  SI is a pair [s |-> snaps, i |-> inst].

DecInst(I, h) == IF I[h].refs = 1
                 THEN [I EXCEPT ![h].refs = 0, ![h].open = FALSE, ![h].closes = @ + 1]
                 ELSE [I EXCEPT ![h].refs = @ - 1]
RECURSIVE DecInsts(_, _)
DecInsts(I, H) == IF H = {} THEN I
                  ELSE LET h == CHOOSE x \in H : TRUE IN DecInsts(DecInst(I, h), H \ {h})
AddInsts(I, H) == [h \in DOMAIN I |-> IF h \in H THEN [I[h] EXCEPT !.refs = @ + 1] ELSE I[h]]
NewInst(I, h, seg) == Put(I, h, [seg |-> seg, refs |-> 1, open |-> TRUE, closes |-> 0])

DecSnap(SI, e) ==
  IF e \notin DOMAIN SI.s THEN SI
  ELSE IF SI.s[e].refs = 1
       THEN [s |-> Restrict(SI.s, DOMAIN SI.s \ {e}), i |-> DecInsts(SI.i, SI.s[e].hs)]
       ELSE [s |-> [SI.s EXCEPT ![e].refs = @ - 1], i |-> SI.i]
AddSnap(SI, e) == [SI EXCEPT !.s[e].refs = @ + 1]
\* a new snapshot object: kept instances get AddRef, owned ones bring their own ref
NewSnap(SI, e, kept, owned, refs) ==
  [s |-> Put(SI.s, e, [refs |-> refs, hs |-> kept \cup owned]), i |-> AddInsts(SI.i, kept)]
SI0 == [s |-> snaps, i |-> inst]

-----------------------------------------------------------------------------
\* files

SnpSize(ents) == 1 + SeqSum([i \in 1..Len(ents) |-> 1 + Cardinality(ents[i].del)])
SnpOK(e) == e \in DOMAIN fsnp /\ fsnp[e].st = "ok"
SegOK(s) == s \in DOMAIN fseg /\ fseg[s].st = "ok"
Loadable(e) == SnpOK(e) /\ \A i \in 1..Len(fsnp[e].ents) : SegOK(fsnp[e].ents[i].id)
LoadableSet == {e \in DOMAIN fsnp : Loadable(e)}
SnapContent(ents) == [i \in 1..Len(ents) |-> [id |-> ents[i].id, del |-> ents[i].del]]
DiskEnts(e) == [i \in 1..Len(fsnp[e].ents) |->
                  [id |-> fsnp[e].ents[i].id, docs |-> fseg[fsnp[e].ents[i].id].docs,
                   del |-> fsnp[e].ents[i].del, pers |-> TRUE, h |-> 0]]

\* FileSystemDirectory.Persist: create-or-open in place; the repaired code truncates first
WriteFile(f, k, content, size) ==
   LET stale == k \in DOMAIN f /\ f[k].size > size /\ ~TruncateOnPersist
   IN Put(f, k, [st |-> IF stale THEN "torn" ELSE "ok",
                 size |-> IF stale THEN f[k].size ELSE size] @@ content)
\* a file is in use (shared flock) while an open instance maps it
InUse(s) == \E h \in DOMAIN inst : inst[h].seg = s /\ inst[h].open

-----------------------------------------------------------------------------
\* pure root-transition functions

\* introduceSegment: optimistic obsoletes keyed by segment id, recomputed for
\* segments that were not in the optimistic root; zero-live segments dropped;
\* the new segment (if the batch has documents) appended last.
ObsFor(obs, id) == {i \in DOMAIN obs : obs[i].id = id}
AfterBatch(ents, uid, seg, obs) ==
  LET b == batchOf[uid]
      upd(e) == LET k == ObsFor(obs, e.id)
                    delta == IF k = {} THEN Match(e.docs, b.del)
                             ELSE obs[CHOOSE i \in k : TRUE].d
                IN [e EXCEPT !.del = e.del \cup delta]
      kept == SelectSeq([i \in 1..Len(ents) |-> upd(ents[i])], LAMBDA e : Live(e) # {})
      newdocs == [k \in 1..Len(b.add) |-> <<b.add[k], uid, k>>]
  IN IF Len(b.add) > 0
     THEN Append(kept, [id |-> seg, docs |-> newdocs, del |-> {}, pers |-> FALSE, h |-> 0])
     ELSE kept

\* introduceMerge.  mm = [id, old (entries as seen at merge start, task order),
\* docs (merged docs), h (instance of the merged file)]
NewPos(mm, k, p) ==
   SeqSum([j \in 1..k-1 |-> Cardinality(Live(mm.old[j]))]) + Cardinality({q \in Live(mm.old[k]) : q <= p})
MergedRoot(ents, mm) ==
  LET oldIds == {mm.old[k].id : k \in 1..Len(mm.old)}
      staying == SelectSeq(ents, LAMBDA e : e.id \notin oldIds /\ Live(e) # {})
      inRoot(k) == mm.old[k].id \in EntIds(ents)
      newDel == UNION {
          IF inRoot(k)
          THEN {NewPos(mm, k, p) : p \in (EntOf(ents, mm.old[k].id).del \ mm.old[k].del)}
          ELSE {NewPos(mm, k, p) : p \in Live(mm.old[k])}
          : k \in 1..Len(mm.old)}
      skipped == ~(Len(mm.docs) > Cardinality(newDel))
  IN [ents |-> IF skipped THEN staying
               ELSE Append(staying, [id |-> mm.id, docs |-> mm.docs, del |-> newDel, pers |-> TRUE, h |-> mm.h]),
      skipped |-> skipped]
MergedDocs(old) == Concat([k \in 1..Len(old) |-> LiveDocsSeq(old[k])])

\* introducePersist: entries whose id was persisted are replaced by the loaded
\* copies; the CURRENT deleted set is kept.  loaded : segid -> h
SwapRoot(ents, loaded) ==
  [i \in 1..Len(ents) |->
     IF ents[i].id \in DOMAIN loaded THEN [ents[i] EXCEPT !.pers = TRUE, !.h = loaded[ents[i].id]]
     ELSE ents[i]]

-----------------------------------------------------------------------------
NoSnap == [epoch |-> 0, ents |-> <<>>]
NoMM == [id |-> 0, old |-> <<>>, docs |-> <<>>, h |-> 0]
ClientInit == [pc |-> "idle", uid |-> 0, seg |-> 0, obs |-> <<>>, res |-> "none", held |-> -1]
PsInit(pc) == [pc |-> pc, snap |-> NoSnap, acks |-> {}, cbs |-> {}, parked |-> {}, i |-> 0,
               loaded |-> <<>>, mm |-> NoMM, todo |-> <<>>, heldM |-> -1, last |-> 0, err |-> FALSE,
               req |-> <<>>]   \* req: the persist introduction the introducer has received but not yet applied
MgInit == [pc |-> "wait", snap |-> NoSnap, planned |-> 0, woken |-> FALSE, mm |-> NoMM, tasks |-> <<>>]
RdInit == [st |-> "closed", epoch |-> 0, ents |-> <<>>, n |-> 0]
LifeInit == [up |-> TRUE, closing |-> FALSE, introExited |-> FALSE, lock |-> TRUE, closed |-> FALSE]

Init ==
  /\ root = NoSnap
  /\ nextEpoch = 1 /\ nextSeg = 1 /\ nextUid = 1 /\ nextH = 1
  /\ cl = [c \in Clients |-> ClientInit]
  /\ pend = {} /\ cbs = {}
  /\ ps = PsInit("wait")
  /\ mg = MgInit
  /\ fsnp = <<>> /\ fseg = <<>>
  /\ pol = [live |-> <<>>, deletable |-> {}, liveSegs |-> <<>>, known |-> {}]
  /\ snaps = (0 :> [refs |-> 1, hs |-> {}])
  /\ inst = <<>>
  /\ rd = [r \in Readers |-> RdInit]
  /\ life = LifeInit
  /\ applied = <<>> /\ epochLen = (0 :> 0) /\ acked = {} /\ cbAcked = {} /\ batchOf = <<>>
  /\ retBefore = <<>> /\ errd = {}
  /\ cnt = [crashes |-> 0, merges |-> 0, faults |-> 0, ropens |-> 0, asyncErrs |-> 0, snapsDone |-> 0]

Up == life.up
IntroUp == life.up /\ ~life.introExited

-----------------------------------------------------------------------------
\* clients (index/writer.go Batch / prepareSegment)

Invoke(c, sh) ==
  /\ Up /\ ~life.closing /\ cl[c].pc = "idle" /\ nextUid <= MaxInv
  /\ cl' = [cl EXCEPT ![c] = [ClientInit EXCEPT !.pc = "start", !.uid = nextUid]]
  /\ batchOf' = Put(batchOf, nextUid, sh)
  /\ retBefore' = Put(retBefore, nextUid,
                      {u \in DOMAIN batchOf : \A d \in Clients : cl[d].uid # u})
  /\ nextUid' = nextUid + 1
  /\ UNCHANGED <<root, nextEpoch, nextSeg, nextH, pend, cbs, ps, mg, fsnp, fseg, pol, snaps, inst,
                 rd, life, applied, epochLen, acked, cbAcked, errd, cnt>>

\* prepareSegment: allocate the segment id, take a reference on the current
\* root (held until the call returns), compute the optimistic obsoletes
Prepare(c) ==
  /\ Up /\ cl[c].pc = "start"
  /\ LET b == batchOf[cl[c].uid]
         obs == [i \in 1..Len(root.ents) |->
                    [id |-> root.ents[i].id, d |-> Match(root.ents[i].docs, b.del)]]
     IN cl' = [cl EXCEPT ![c].pc = "prepared", ![c].seg = nextSeg + 1, ![c].obs = obs,
                         ![c].held = root.epoch]
  /\ nextSeg' = nextSeg + 1
  /\ snaps' = AddSnap(SI0, root.epoch).s
  /\ UNCHANGED <<root, nextEpoch, nextUid, nextH, pend, cbs, ps, mg, fsnp, fseg, pol, inst, rd, life,
                 applied, epochLen, acked, cbAcked, batchOf, retBefore, errd, cnt>>

\* rendezvous on the introductions channel + introduceSegment + replaceRoot
IntroduceBatch(c) ==
  /\ IntroUp /\ cl[c].pc = "prepared"
  /\ LET u == cl[c].uid
         ents2 == AfterBatch(root.ents, u, cl[c].seg, cl[c].obs)
         si1 == NewSnap(SI0, nextEpoch, HsOf(ents2), {}, 1)
         si2 == DecSnap(si1, root.epoch)
     IN /\ root' = [epoch |-> nextEpoch, ents |-> ents2]
        /\ snaps' = si2.s /\ inst' = si2.i
        /\ epochLen' = Put(epochLen, nextEpoch, Len(applied) + 1)
        /\ applied' = Append(applied, u)
        /\ pend' = IF Safe THEN pend \cup {u} ELSE pend
        /\ cbs' = IF WithCallbacks THEN cbs \cup {u} ELSE cbs
        /\ cl' = [cl EXCEPT ![c].pc = IF Safe THEN "waitp" ELSE "done",
                            ![c].res = IF Safe THEN "none" ELSE "ok"]
  /\ nextEpoch' = nextEpoch + 1
  /\ UNCHANGED <<nextSeg, nextUid, nextH, ps, mg, fsnp, fseg, pol, rd, life, acked, cbAcked,
                 batchOf, retBefore, errd, cnt>>

\* the Batch call returns (releases the optimistic root it held)
Return(c) ==
  /\ Up /\ cl[c].pc = "done"
  /\ acked' = IF cl[c].res = "ok" /\ Safe THEN acked \cup {cl[c].uid} ELSE acked
  /\ errd' = IF cl[c].res = "err" THEN errd \cup {cl[c].uid} ELSE errd
  /\ LET si == DecSnap(SI0, cl[c].held) IN snaps' = si.s /\ inst' = si.i
  /\ cl' = [cl EXCEPT ![c] = [ClientInit EXCEPT !.uid = cl[c].uid, !.pc = "idle"]]
  /\ UNCHANGED <<root, nextEpoch, nextSeg, nextUid, nextH, pend, cbs, ps, mg, fsnp, fseg, pol, rd, life,
                 applied, epochLen, cbAcked, batchOf, retBefore, cnt>>

-----------------------------------------------------------------------------
\* readers (Writer.Reader / Snapshot.Close)

ReaderOpen(r) ==
  /\ Up /\ ~life.closed /\ rd[r].st = "closed" /\ cnt.ropens < MaxReaderOpens
  /\ root.epoch \in DOMAIN snaps
  /\ rd' = [rd EXCEPT ![r] = [st |-> "open", epoch |-> root.epoch, ents |-> root.ents, n |-> Len(applied)]]
  /\ snaps' = AddSnap(SI0, root.epoch).s
  /\ cnt' = [cnt EXCEPT !.ropens = @ + 1]
  /\ UNCHANGED <<root, nextEpoch, nextSeg, nextUid, nextH, cl, pend, cbs, ps, mg, fsnp, fseg, pol, inst,
                 life, applied, epochLen, acked, cbAcked, batchOf, retBefore, errd>>

\* a reader may be closed at any time, also after the writer was closed
ReaderClose(r) ==
  /\ rd[r].st = "open"
  /\ LET si == DecSnap(SI0, rd[r].epoch) IN snaps' = si.s /\ inst' = si.i
  /\ rd' = [rd EXCEPT ![r] = RdInit]
  /\ UNCHANGED <<root, nextEpoch, nextSeg, nextUid, nextH, cl, pend, cbs, ps, mg, fsnp, fseg, pol,
                 life, applied, epochLen, acked, cbAcked, batchOf, retBefore, errd, cnt>>

-----------------------------------------------------------------------------
\* persister (index/persister.go)

PFrame == <<nextUid, mg, rd, life, applied, acked, cbAcked, batchOf, retBefore, errd>>

\* under rootLock: grab root (+ref), rootPersisted, persistedCallbacks
PGrab ==
  /\ Up /\ ps.pc = "wait" /\ root.epoch > ps.last
  /\ LET mem == MemEnts(root.ents)
     IN ps' = [ps EXCEPT !.pc = IF Len(mem) >= MinMemMerge THEN "mmwrite" ELSE "segs",
                         !.snap = root, !.acks = pend, !.cbs = cbs, !.todo = root.ents,
                         !.i = 1, !.loaded = <<>>, !.mm = NoMM, !.heldM = -1, !.err = FALSE]
  /\ pend' = {} /\ cbs' = {}
  /\ snaps' = AddSnap(SI0, root.epoch).s
  /\ UNCHANGED <<root, nextEpoch, nextSeg, nextH, cl, fsnp, fseg, pol, inst, epochLen, cnt>>
  /\ UNCHANGED PFrame

\* mergeSegmentBases: write the merged in-memory segments as one file
PMemMergeWrite ==
  /\ Up /\ ps.pc = "mmwrite"
  /\ LET mem == MemEnts(ps.snap.ents)
         docs == MergedDocs(mem)
         id == nextSeg + 1
     IN /\ fseg' = WriteFile(fseg, id, [docs |-> docs], Len(docs))
        /\ ps' = [ps EXCEPT !.pc = "mmload", !.mm = [id |-> id, old |-> mem, docs |-> docs, h |-> 0]]
  /\ nextSeg' = nextSeg + 1
  /\ UNCHANGED <<root, nextEpoch, nextH, cl, pend, cbs, fsnp, pol, snaps, inst, epochLen, cnt>>
  /\ UNCHANGED PFrame

PMemMergeLoad ==
  /\ Up /\ ps.pc = "mmload"
  /\ inst' = NewInst(inst, nextH, ps.mm.id)
  /\ ps' = [ps EXCEPT !.pc = "mmintro", !.mm.h = nextH]
  /\ nextH' = nextH + 1
  /\ UNCHANGED <<root, nextEpoch, nextSeg, cl, pend, cbs, fsnp, fseg, pol, snaps, epochLen, cnt>>
  /\ UNCHANGED PFrame

\* send on merges + introduceMerge; the persister keeps a reference on the
\* new snapshot until persistSnapshotMaybeMerge returns
PMemMergeIntro ==
  /\ IntroUp /\ ps.pc = "mmintro"
  /\ LET r == MergedRoot(root.ents, ps.mm)
         oldIds == {ps.mm.old[k].id : k \in 1..Len(ps.mm.old)}
         equiv == SelectSeq(ps.snap.ents, LAMBDA e : e.id \notin oldIds)
                   \o <<[id |-> ps.mm.id, docs |-> ps.mm.docs, del |-> {}, pers |-> TRUE, h |-> ps.mm.h]>>
         kept == HsOf(r.ents) \ {ps.mm.h}
         si1 == NewSnap(SI0, nextEpoch, kept, IF r.skipped THEN {} ELSE {ps.mm.h}, 2)
         si2 == DecSnap(si1, root.epoch)
         \* skipped: the persister closes both the snapshot and the segment
         si3 == IF r.skipped THEN [s |-> DecSnap(si2, nextEpoch).s, i |-> DecInst(DecSnap(si2, nextEpoch).i, ps.mm.h)]
                ELSE si2
     IN /\ root' = [epoch |-> nextEpoch, ents |-> r.ents]
        /\ snaps' = si3.s /\ inst' = si3.i
        /\ epochLen' = Put(epochLen, nextEpoch, Len(applied))
        /\ ps' = [ps EXCEPT !.pc = "segs", !.todo = IF r.skipped THEN ps.snap.ents ELSE equiv, !.i = 1,
                            !.heldM = IF r.skipped THEN -1 ELSE nextEpoch]
  /\ nextEpoch' = nextEpoch + 1
  /\ UNCHANGED <<nextSeg, nextH, cl, pend, cbs, fsnp, fseg, pol, cnt>>
  /\ UNCHANGED PFrame

\* persistSnapshotDirect: Persist each unpersisted segment of the snapshot
PPersistSeg ==
  /\ Up /\ ps.pc = "segs" /\ ps.i <= Len(ps.todo)
  /\ LET e == ps.todo[ps.i]
     IN IF e.pers
        THEN /\ ps' = [ps EXCEPT !.i = ps.i + 1] /\ UNCHANGED fseg
        ELSE /\ fseg' = WriteFile(fseg, e.id, [docs |-> e.docs], Len(e.docs))
             /\ ps' = [ps EXCEPT !.i = ps.i + 1, !.loaded = Put(ps.loaded, e.id, 0)]
  /\ UNCHANGED <<root, nextEpoch, nextSeg, nextH, cl, pend, cbs, fsnp, pol, snaps, inst, epochLen, cnt>>
  /\ UNCHANGED PFrame

\* prepareIntroducePersist: Load every newly written segment
PLoadSeg ==
  /\ Up /\ ps.pc = "segs" /\ ps.i > Len(ps.todo)
  /\ \E s \in DOMAIN ps.loaded :
       /\ ps.loaded[s] = 0
       /\ s = Min({x \in DOMAIN ps.loaded : ps.loaded[x] = 0})
       /\ inst' = NewInst(inst, nextH, s)
       /\ ps' = [ps EXCEPT !.loaded = Put(ps.loaded, s, nextH)]
  /\ nextH' = nextH + 1
  /\ UNCHANGED <<root, nextEpoch, nextSeg, cl, pend, cbs, fsnp, fseg, pol, snaps, epochLen, cnt>>
  /\ UNCHANGED PFrame

\* prepareIntroducePersist hands the loaded copies to the introducer (send on the
\* persists channel): the introducer now holds the request
PSendPersist ==
  /\ ps.pc = "segs" /\ ps.i > Len(ps.todo) /\ \A s \in DOMAIN ps.loaded : ps.loaded[s] # 0
  /\ IF DOMAIN ps.loaded = {}
     THEN /\ Up /\ ps' = [ps EXCEPT !.pc = "snap"]
     ELSE /\ IntroUp /\ ps' = [ps EXCEPT !.pc = "swapwait", !.req = ps.loaded]
  /\ UNCHANGED <<root, nextEpoch, nextSeg, nextH, cl, pend, cbs, fsnp, fseg, pol, snaps, inst, epochLen, cnt>>
  /\ UNCHANGED PFrame

\* introducePersist: the introducer applies the request it holds.  Loaded copies that
\* are not swapped in (their segment left the root meanwhile) are closed by the
\* persister's deferred clean-up when it sees the request applied.
IApplyPersist ==
  /\ Up /\ ps.req # <<>>
  /\ LET ents2 == SwapRoot(root.ents, ps.req)
         used == {ps.req[s] : s \in DOMAIN ps.req \cap EntIds(root.ents)}
         unused == {ps.req[s] : s \in DOMAIN ps.req} \ used
         si1 == NewSnap(SI0, nextEpoch, HsOf(ents2) \ used, used, 1)
         si2 == DecSnap(si1, root.epoch)
     IN /\ root' = [epoch |-> nextEpoch, ents |-> ents2]
        /\ snaps' = si2.s
        /\ inst' = IF ps.pc = "swapwait" THEN DecInsts(si2.i, unused) ELSE si2.i
        /\ epochLen' = Put(epochLen, nextEpoch, Len(applied))
  /\ nextEpoch' = nextEpoch + 1
  /\ ps' = IF ps.pc = "swapwait" THEN [ps EXCEPT !.pc = "snap", !.req = <<>>] ELSE [ps EXCEPT !.req = <<>>]
  /\ UNCHANGED <<nextSeg, nextH, cl, pend, cbs, fsnp, fseg, pol, cnt>>
  /\ UNCHANGED PFrame

\* Persist the snapshot file under the GRABBED epoch
PPersistSnap ==
  /\ Up /\ ps.pc = "snap"
  /\ fsnp' = WriteFile(fsnp, ps.snap.epoch, [ents |-> SnapContent(ps.todo)], SnpSize(ps.todo))
  /\ ps' = [ps EXCEPT !.pc = "commit"]
  /\ cnt' = [cnt EXCEPT !.snapsDone = IF @ < 1 THEN 1 ELSE @]
  /\ UNCHANGED <<root, nextEpoch, nextSeg, nextH, cl, pend, cbs, fseg, pol, snaps, inst, epochLen>>
  /\ UNCHANGED PFrame

PolicyCommit(p, e, segsOf) ==
  LET live2 == Append(p.live, e)
      over == Len(live2) - KeepN
      newDel == IF over > 0 THEN {live2[i] : i \in 1..over} ELSE {}
  IN [live |-> IF over > 0 THEN SubSeq(live2, over+1, Len(live2)) ELSE live2,
      deletable |-> p.deletable \cup newDel,
      liveSegs |-> Put(p.liveSegs, e, segsOf),
      known |-> p.known \cup segsOf]

\* deletionPolicy.Commit
PCommit ==
  /\ Up /\ ps.pc = "commit"
  /\ pol' = PolicyCommit(pol, ps.snap.epoch, {ps.todo[i].id : i \in 1..Len(ps.todo)})
  /\ ps' = [ps EXCEPT !.pc = "ack"]
  /\ UNCHANGED <<root, nextEpoch, nextSeg, nextH, cl, pend, cbs, fsnp, fseg, snaps, inst, epochLen, cnt>>
  /\ UNCHANGED PFrame

\* close the persisted channels, run the callbacks (parked ones first),
\* release the grabbed snapshot (and the in-memory-merge snapshot), wake the merger
PAck ==
  /\ Up /\ ps.pc = "ack"
  /\ cl' = [c \in Clients |-> IF cl[c].pc = "waitp" /\ cl[c].uid \in ps.acks
                              THEN [cl[c] EXCEPT !.pc = "done", !.res = "ok"] ELSE cl[c]]
  /\ cbAcked' = cbAcked \cup ps.parked \cup ps.cbs
  /\ LET si1 == DecSnap(SI0, ps.snap.epoch)
         si2 == IF ps.heldM >= 0 THEN DecSnap(si1, ps.heldM) ELSE si1
     IN snaps' = si2.s /\ inst' = si2.i
  /\ ps' = [ps EXCEPT !.pc = IF root.epoch # ps.snap.epoch THEN "wait" ELSE "cleanup",
                      !.acks = {}, !.cbs = {}, !.parked = {}, !.last = ps.snap.epoch, !.heldM = -1]
  /\ mg' = [mg EXCEPT !.woken = TRUE]
  /\ UNCHANGED <<root, nextEpoch, nextSeg, nextUid, nextH, pend, cbs, fsnp, fseg, pol, rd, life,
                 applied, epochLen, acked, batchOf, retBefore, errd, cnt>>

\* ---- clean-up (index/deletion.go): one Remove per step --------------------
PCleanupSnap ==
  /\ Up /\ ps.pc = "cleanup" /\ pol.deletable # {}
  /\ \E e \in pol.deletable :
       /\ fsnp' = Restrict(fsnp, DOMAIN fsnp \ {e})
       /\ pol' = [pol EXCEPT !.deletable = pol.deletable \ {e},
                             !.liveSegs = Restrict(pol.liveSegs, DOMAIN pol.liveSegs \ {e})]
  /\ UNCHANGED <<root, nextEpoch, nextSeg, nextH, cl, pend, cbs, ps, fseg, snaps, inst, epochLen, cnt>>
  /\ UNCHANGED PFrame

Needed(s) == \E e \in DOMAIN pol.liveSegs : s \in pol.liveSegs[e]
\* removal takes the exclusive flock: it fails (and is retried next time)
\* while any handle holds the shared lock
PCleanupSeg ==
  /\ Up /\ ps.pc = "cleanup" /\ pol.deletable = {}
  /\ \E s \in pol.known :
       /\ ~Needed(s) /\ ~InUse(s)
       /\ fseg' = Restrict(fseg, DOMAIN fseg \ {s})
       /\ pol' = [pol EXCEPT !.known = pol.known \ {s}]
  /\ UNCHANGED <<root, nextEpoch, nextSeg, nextH, cl, pend, cbs, ps, fsnp, snaps, inst, epochLen, cnt>>
  /\ UNCHANGED PFrame

PCleanupDone ==
  /\ Up /\ ps.pc = "cleanup" /\ pol.deletable = {}
  /\ ~(\E s \in pol.known : ~Needed(s) /\ ~InUse(s))
  /\ ps' = [ps EXCEPT !.pc = "wait"]
  /\ UNCHANGED <<root, nextEpoch, nextSeg, nextH, cl, pend, cbs, fsnp, fseg, pol, snaps, inst, epochLen, cnt>>
  /\ UNCHANGED PFrame

\* ---- injected I/O faults on the persister's directory operations ----------
\* (persisterLoop error path: every grabbed channel receives the error,
\* callbacks are parked, the async error fires, the grabbed snapshot is
\* released, loaded-but-unswapped copies are closed, immediate retry)
PFail ==
  /\ Up /\ cnt.faults < MaxFaults
  /\ ps.pc \in {"mmwrite", "mmload", "segs", "snap"}
  /\ cl' = [c \in Clients |-> IF cl[c].pc = "waitp" /\ cl[c].uid \in ps.acks
                              THEN [cl[c] EXCEPT !.pc = "done", !.res = "err"] ELSE cl[c]]
  /\ LET si1 == DecSnap(SI0, ps.snap.epoch)
         si2 == IF ps.heldM >= 0 THEN DecSnap(si1, ps.heldM) ELSE si1
         \* copies loaded for the swap but not yet swapped in
         unsw == IF ps.pc = "segs" THEN {ps.loaded[s] : s \in {x \in DOMAIN ps.loaded : ps.loaded[x] # 0}} ELSE {}
         mmh == IF ps.pc = "mmintro" /\ ps.mm.h # 0 THEN {ps.mm.h} ELSE {}
     IN snaps' = si2.s /\ inst' = DecInsts(si2.i, unsw \cup mmh)
  /\ ps' = [ps EXCEPT !.pc = "wait", !.acks = {}, !.cbs = {}, !.parked = ps.parked \cup ps.cbs,
                      !.heldM = -1, !.err = TRUE]
  /\ cnt' = [cnt EXCEPT !.faults = @ + 1, !.asyncErrs = @ + 1]
  /\ UNCHANGED <<root, nextEpoch, nextSeg, nextUid, nextH, pend, cbs, mg, fsnp, fseg, pol, rd, life,
                 applied, epochLen, acked, cbAcked, batchOf, retBefore, errd>>

-----------------------------------------------------------------------------
\* merger (index/merge.go)

MFrame == <<nextUid, cl, pend, cbs, ps, fsnp, pol, rd, life, applied, acked, cbAcked, batchOf, retBefore, errd>>

\* woken by the persister: read the root (+ref)
MWake ==
  /\ Up /\ mg.pc = "wait" /\ mg.woken
  /\ IF mg.planned # root.epoch /\ cnt.merges < MaxMerges
     THEN /\ mg' = [mg EXCEPT !.pc = "plan", !.snap = root, !.woken = FALSE]
          /\ snaps' = AddSnap(SI0, root.epoch).s
     ELSE /\ mg' = [mg EXCEPT !.woken = FALSE]
          /\ UNCHANGED snaps
  /\ UNCHANGED <<root, nextEpoch, nextSeg, nextH, fseg, inst, epochLen, cnt>>
  /\ UNCHANGED MFrame

\* mergeplan.Plan over the persisted segments of the snapshot read at wake-up:
\* any set of disjoint sub-lists (an over-approximation of the planner; the
\* planner's own contract is MergePlan.tla).  One task is modelled per plan.
MPlan ==
  /\ Up /\ mg.pc = "plan"
  /\ LET pers == PersEnts(mg.snap.ents)
     IN \/ /\ mg' = [mg EXCEPT !.pc = "done"]
           /\ UNCHANGED <<fseg, nextSeg, cnt>>
        \/ \E S \in SUBSET (1..Len(pers)) :
             /\ S # {}
             /\ LET old == SelectSeq(pers, LAMBDA e : \E i \in S : pers[i].id = e.id)
                    docs == MergedDocs(old)
                    id == nextSeg + 1
                IN /\ fseg' = WriteFile(fseg, id, [docs |-> docs], Len(docs))
                   /\ mg' = [mg EXCEPT !.pc = "load", !.mm = [id |-> id, old |-> old, docs |-> docs, h |-> 0]]
             /\ nextSeg' = nextSeg + 1
             /\ cnt' = [cnt EXCEPT !.merges = @ + 1]
  /\ UNCHANGED <<root, nextEpoch, nextH, snaps, inst, epochLen>>
  /\ UNCHANGED MFrame

MLoad ==
  /\ Up /\ mg.pc = "load"
  /\ inst' = NewInst(inst, nextH, mg.mm.id)
  /\ mg' = [mg EXCEPT !.pc = "intro", !.mm.h = nextH]
  /\ nextH' = nextH + 1
  /\ UNCHANGED <<root, nextEpoch, nextSeg, fseg, snaps, epochLen, cnt>>
  /\ UNCHANGED MFrame

\* send on merges + introduceMerge; the merger closes the notify reference
\* at once (and the segment too when the introduction was skipped)
MIntro ==
  /\ IntroUp /\ mg.pc = "intro"
  /\ LET r == MergedRoot(root.ents, mg.mm)
         kept == HsOf(r.ents) \ {mg.mm.h}
         si1 == NewSnap(SI0, nextEpoch, kept, IF r.skipped THEN {} ELSE {mg.mm.h}, 1)
         si2 == DecSnap(si1, root.epoch)
         i3 == IF r.skipped THEN DecInst(si2.i, mg.mm.h) ELSE si2.i
     IN /\ root' = [epoch |-> nextEpoch, ents |-> r.ents]
        /\ snaps' = si2.s /\ inst' = i3
        /\ epochLen' = Put(epochLen, nextEpoch, Len(applied))
  /\ nextEpoch' = nextEpoch + 1
  /\ mg' = [mg EXCEPT !.pc = "done", !.mm = NoMM]
  /\ UNCHANGED <<nextSeg, nextH, fseg, cnt>>
  /\ UNCHANGED MFrame

\* planMergeAtSnapshot returned: release the snapshot, remember the epoch
MDone ==
  /\ Up /\ mg.pc = "done"
  /\ LET si == DecSnap(SI0, mg.snap.epoch) IN snaps' = si.s /\ inst' = si.i
  /\ mg' = [mg EXCEPT !.pc = "wait", !.planned = mg.snap.epoch, !.snap = NoSnap]
  /\ UNCHANGED <<root, nextEpoch, nextSeg, nextH, fseg, epochLen, cnt>>
  /\ UNCHANGED MFrame

\* a failed Persist/Load of the merger: async error, snapshot released, retry
MFail ==
  /\ Up /\ cnt.faults < MaxFaults /\ mg.pc \in {"plan", "load"}
  /\ LET si == DecSnap(SI0, mg.snap.epoch) IN snaps' = si.s /\ inst' = si.i
  /\ mg' = [mg EXCEPT !.pc = "wait", !.snap = NoSnap, !.mm = NoMM, !.woken = TRUE]
  /\ cnt' = [cnt EXCEPT !.faults = @ + 1, !.asyncErrs = @ + 1]
  /\ UNCHANGED <<root, nextEpoch, nextSeg, nextH, fseg, epochLen>>
  /\ UNCHANGED MFrame

-----------------------------------------------------------------------------
\* Close (index/writer.go close): closeCh, the three loops exit at their
\* select sites, replaceRoot(nil), Unlock

AllIdle == \A c \in Clients : cl[c].pc = "idle"

CloseCall ==
  /\ AllowClose /\ Up /\ ~life.closing /\ AllIdle
  /\ life' = [life EXCEPT !.closing = TRUE]
  /\ UNCHANGED <<root, nextEpoch, nextSeg, nextUid, nextH, cl, pend, cbs, ps, mg, fsnp, fseg, pol, snaps,
                 inst, rd, applied, epochLen, acked, cbAcked, batchOf, retBefore, errd, cnt>>

IExit ==
  /\ Up /\ life.closing /\ ~life.introExited
  /\ ps.req = <<>>     \* a request it has received is applied before it looks at closeCh again
  /\ life' = [life EXCEPT !.introExited = TRUE]
  /\ UNCHANGED <<root, nextEpoch, nextSeg, nextUid, nextH, cl, pend, cbs, ps, mg, fsnp, fseg, pol, snaps,
                 inst, rd, applied, epochLen, acked, cbAcked, batchOf, retBefore, errd, cnt>>

\* the persister leaves at its top-level select, or gives up at a send /
\* cancelled write (ErrClosed path: release what it holds)
PExit ==
  /\ Up /\ life.closing /\ ps.pc # "exited"
  /\ ps.pc \in {"wait", "cleanup", "mmwrite", "mmintro", "segs", "snap"} \/ (ps.pc = "swapwait" /\ ~WaitForSwap)
  /\ LET holding == ps.pc \in {"mmwrite", "mmintro", "segs", "snap", "swapwait"}
         si1 == IF holding THEN DecSnap(SI0, ps.snap.epoch) ELSE SI0
         si2 == IF holding /\ ps.heldM >= 0 THEN DecSnap(si1, ps.heldM) ELSE si1
         \* the deferred clean-up closes every loaded copy still in the hand-over map; at
         \* "swapwait" (unrepaired code only) these are the copies the introducer is about to swap in
         unsw == IF ps.pc \in {"segs", "swapwait"} THEN {ps.loaded[s] : s \in {x \in DOMAIN ps.loaded : ps.loaded[x] # 0}} ELSE {}
         mmh == IF ps.pc = "mmintro" THEN {ps.mm.h} ELSE {}
     IN snaps' = si2.s /\ inst' = DecInsts(si2.i, unsw \cup mmh)
  /\ ps' = [PsInit("exited") EXCEPT !.last = ps.last, !.req = ps.req]
  /\ UNCHANGED <<root, nextEpoch, nextSeg, nextUid, nextH, cl, pend, cbs, mg, fsnp, fseg, pol,
                 rd, life, applied, epochLen, acked, cbAcked, batchOf, retBefore, errd, cnt>>

MExit ==
  /\ Up /\ life.closing /\ mg.pc # "exited"
  /\ mg.pc \in {"wait", "plan", "intro", "done"}
  /\ LET holding == mg.pc \in {"plan", "intro", "done"}
         si1 == IF holding THEN DecSnap(SI0, mg.snap.epoch) ELSE SI0
         mmh == IF mg.pc = "intro" THEN {mg.mm.h} ELSE {}
     IN snaps' = si1.s /\ inst' = DecInsts(si1.i, mmh)
  /\ mg' = [MgInit EXCEPT !.pc = "exited"]
  /\ UNCHANGED <<root, nextEpoch, nextSeg, nextUid, nextH, cl, pend, cbs, ps, fsnp, fseg, pol,
                 rd, life, applied, epochLen, acked, cbAcked, batchOf, retBefore, errd, cnt>>

CloseDone ==
  /\ Up /\ life.closing /\ life.introExited /\ ps.pc = "exited" /\ mg.pc = "exited"
  /\ LET si == DecSnap(SI0, root.epoch) IN snaps' = si.s /\ inst' = si.i
  /\ life' = [life EXCEPT !.up = FALSE, !.closed = TRUE, !.lock = FALSE]
  /\ UNCHANGED <<root, nextEpoch, nextSeg, nextUid, nextH, cl, pend, cbs, ps, mg, fsnp, fseg, pol,
                 rd, applied, epochLen, acked, cbAcked, batchOf, retBefore, errd, cnt>>

-----------------------------------------------------------------------------
\* crash and recovery

InFlightSeg == IF ps.pc = "mmwrite" THEN {nextSeg + 1}
               ELSE IF ps.pc = "segs" /\ ps.i <= Len(ps.todo) /\ ~ps.todo[ps.i].pers THEN {ps.todo[ps.i].id}
               ELSE {}
InFlightSnp == IF ps.pc = "snap" THEN {ps.snap.epoch} ELSE {}
Torn(f, K, sz) == [x \in DOMAIN f \cup K |->
                     IF x \in K THEN [st |-> "torn", size |-> sz] @@
                                     (IF x \in DOMAIN f THEN f[x] ELSE [ents |-> <<>>, docs |-> <<>>])
                     ELSE f[x]]

\* the process dies: volatile state is lost, the file being written may be
\* left torn (any prefix / zero filled: not loadable), handles and lock vanish.
\* Readers of the dead process die with it.
Crash ==
  /\ Up /\ cnt.crashes < MaxCrash
  /\ \E tear \in BOOLEAN :
       /\ fseg' = IF tear THEN Torn(fseg, InFlightSeg, 1) ELSE fseg
       /\ fsnp' = IF tear THEN Torn(fsnp, InFlightSnp, SnpSize(ps.todo)) ELSE fsnp
  /\ life' = [life EXCEPT !.up = FALSE, !.lock = FALSE, !.closing = FALSE]
  /\ cnt' = [cnt EXCEPT !.crashes = @ + 1]
  /\ snaps' = <<>> /\ inst' = <<>>
  /\ rd' = [r \in Readers |-> RdInit]
  /\ UNCHANGED <<root, nextEpoch, nextSeg, nextUid, nextH, cl, pend, cbs, ps, mg, pol,
                 applied, epochLen, acked, cbAcked, batchOf, retBefore, errd>>

\* OpenWriter: Lock, loadSnapshots (ascending; each loadable snapshot is
\* committed to the policy and becomes the root), epoch and segment counters
\* re-derived from the files, Cleanup, start the loops
RecoverResult ==
  LET L == LoadableSet
      newest == IF L = {} THEN 0 ELSE Max(L)
      ordered == SortedSeq(L)
      n == Len(ordered)
      keep == IF n > KeepN THEN SubSeq(ordered, n-KeepN+1, n) ELSE ordered
      dele == IF n > KeepN THEN {ordered[i] : i \in 1..n-KeepN} ELSE {}
      segsOf(e) == {fsnp[e].ents[i].id : i \in 1..Len(fsnp[e].ents)}
  IN [ok |-> (DOMAIN fsnp = {} \/ L # {}),
      newest |-> newest,
      pol |-> [live |-> keep, deletable |-> dele, liveSegs |-> [e \in L |-> segsOf(e)],
               known |-> UNION {segsOf(e) : e \in L}]]

Recover ==
  /\ ~life.up /\ ~life.lock
  /\ \A r \in Readers : rd[r].st = "closed"      \* readers of a closed writer are modelled as closed first
  /\ LET rr == RecoverResult
         newest == rr.newest
         ents0 == IF newest = 0 THEN <<>> ELSE DiskEnts(newest)
         \* every listed segment is loaded: one instance each
         hs == [i \in 1..Len(ents0) |-> nextH + i - 1]
         ents1 == [i \in 1..Len(ents0) |-> [ents0[i] EXCEPT !.h = hs[i]]]
     IN /\ rr.ok
        /\ root' = [epoch |-> newest, ents |-> ents1]
        /\ nextEpoch' = newest + 1
        /\ nextSeg' = IF DOMAIN fseg = {} THEN 1 ELSE Max(DOMAIN fseg) + 1
        /\ nextH' = nextH + Len(ents0)
        /\ pol' = rr.pol
        /\ applied' = SubSeq(applied, 1, epochLen[newest])
        /\ snaps' = (newest :> [refs |-> 1, hs |-> Range(hs)])
        /\ inst' = [h \in Range(hs) |-> [seg |-> ents1[h - nextH + 1].id, refs |-> 1, open |-> TRUE, closes |-> 0]]
        /\ ps' = [PsInit("cleanup") EXCEPT !.last = newest]
  /\ cl' = [c \in Clients |-> ClientInit]
  /\ pend' = {} /\ cbs' = {}
  /\ mg' = MgInit
  /\ life' = LifeInit
  /\ UNCHANGED <<nextUid, fsnp, fseg, rd, epochLen, acked, cbAcked, batchOf, retBefore, errd, cnt>>

\* a second OpenWriter while the directory is locked: refused, nothing changes
OpenSecond == /\ life.lock /\ UNCHANGED vars

-----------------------------------------------------------------------------
Next ==
  \/ \E c \in Clients, sh \in Shapes : Invoke(c, sh)
  \/ \E c \in Clients : Prepare(c) \/ IntroduceBatch(c) \/ Return(c)
  \/ \E r \in Readers : ReaderOpen(r) \/ ReaderClose(r)
  \/ PGrab \/ PMemMergeWrite \/ PMemMergeLoad \/ PMemMergeIntro \/ PPersistSeg \/ PLoadSeg
  \/ PSendPersist \/ IApplyPersist \/ PPersistSnap \/ PCommit \/ PAck
  \/ PCleanupSnap \/ PCleanupSeg \/ PCleanupDone \/ PFail
  \/ MWake \/ MPlan \/ MLoad \/ MIntro \/ MDone \/ MFail
  \/ CloseCall \/ IExit \/ PExit \/ MExit \/ CloseDone
  \/ Crash \/ Recover

Spec == Init /\ [][Next]_vars

\* fairness for the liveness properties: every loop keeps taking its steps
PersisterStep == PGrab \/ PMemMergeWrite \/ PMemMergeLoad \/ PMemMergeIntro \/ PPersistSeg \/ PLoadSeg
                 \/ PSendPersist \/ IApplyPersist \/ PPersistSnap \/ PCommit \/ PAck
                 \/ PCleanupSnap \/ PCleanupSeg \/ PCleanupDone \/ PExit
MergerStep == MWake \/ MPlan \/ MLoad \/ MIntro \/ MDone \/ MExit
ClientStep == \E c \in Clients : Prepare(c) \/ IntroduceBatch(c) \/ Return(c)
FairSpec == Spec /\ WF_vars(PersisterStep) /\ WF_vars(MergerStep) /\ WF_vars(ClientStep)
                 /\ WF_vars(IExit) /\ WF_vars(CloseDone)

-----------------------------------------------------------------------------
\* properties

\* C01: the root exposes exactly the abstract index
C01_RootIsAbstract == Up => Vis(root.ents) = AbsPrefix(Len(applied))
C01_SegIdsUnique == Up => \A i, j \in 1..Len(root.ents) : root.ents[i].id = root.ents[j].id => i = j
UpdateOnly(id) == \A u \in DOMAIN batchOf :
                     /\ Cardinality({k \in 1..Len(batchOf[u].add) : batchOf[u].add[k] = id}) <= 1
                     /\ (\E k \in 1..Len(batchOf[u].add) : batchOf[u].add[k] = id) => id \in batchOf[u].del
C01_UpdateUnique == Up => \A id \in Ids : UpdateOnly(id) =>
                        Cardinality({d \in Vis(root.ents) : d[1] = id}) <= 1

\* C02: acknowledged => durable, at every instant (Crash is enabled everywhere)
DurableLen == IF LoadableSet = {} \/ Max(LoadableSet) \notin DOMAIN epochLen THEN 0 ELSE epochLen[Max(LoadableSet)]
Durable(u) == \E i \in 1..Len(applied) : applied[i] = u /\ i <= DurableLen
C02_AckedDurable == \A u \in acked \cup cbAcked : Durable(u)

\* C03: what is on disk is the abstract index after a prefix
C03_DiskIsPrefix == LoadableSet # {} =>
      LET e == Max(LoadableSet) IN e \in DOMAIN epochLen /\ Vis(DiskEnts(e)) = AbsPrefix(epochLen[e])
C03_Recoverable == cnt.snapsDone > 0 => LoadableSet # {}
C03_EveryLoadableIsPrefix == \A e \in LoadableSet : e \in DOMAIN epochLen =>
      \E k \in 0..Len(applied) : Vis(DiskEnts(e)) = AbsPrefix(k)

\* C04: a held reader keeps its content and its files
C04_ReaderFrozen == \A r \in Readers : rd[r].st = "open" => Vis(rd[r].ents) = AbsPrefix(rd[r].n)
C04_NoUseAfterClose ==
  /\ \A r \in Readers : rd[r].st = "open" =>
        /\ rd[r].epoch \in DOMAIN snaps
        /\ \A h \in snaps[rd[r].epoch].hs : inst[h].open
  /\ Up => \A h \in HsOf(root.ents) : h \in DOMAIN inst /\ inst[h].open

\* C05: real-time order and prefix readers
C05_RealTime == \A v \in DOMAIN retBefore : IsApplied(v) =>
                   \A u \in retBefore[v] : IsApplied(u) => PosOf(u) < PosOf(v)
C05_ReturnedApplied == Up => \A u \in acked : IsApplied(u)

\* C06: merges and persist swaps never change the visible documents
C06_Invisible == [][(PMemMergeIntro \/ MIntro \/ IApplyPersist) => Vis(root'.ents) = Vis(root.ents)]_vars

\* C11: retention, removal safety, handles, lock
C11_Retained == \A i \in 1..Len(pol.live) : Loadable(pol.live[i])
C11_AtLeastN == Len(pol.live) >= KeepN => Cardinality(LoadableSet) >= KeepN
C11_RootFiles == Up => \A i \in 1..Len(root.ents) : root.ents[i].pers => SegOK(root.ents[i].id)
C11_OpenHandlesHaveFiles == \A h \in DOMAIN inst : inst[h].open => inst[h].seg \in DOMAIN fseg
C11_RemoveSafe == [][\A s \in DOMAIN fseg : s \notin DOMAIN fseg' => ~InUse(s) /\ ~Needed(s)]_vars
C11_HandlesBalanced ==
  /\ \A h \in DOMAIN inst : inst[h].closes <= 1 /\ (inst[h].open <=> inst[h].closes = 0) /\ inst[h].refs >= 0
  /\ (life.closed /\ \A r \in Readers : rd[r].st = "closed") => \A h \in DOMAIN inst : ~inst[h].open
C11_Lock == life.closed => ~life.lock

\* C14: failures are surfaced; the next ack covers everything applied before
C14_Surfaced == \A u \in errd : cnt.asyncErrs > 0
C14_AckCovers == [][PAck => \A i \in 1..epochLen[ps.snap.epoch] : Durable(applied[i])]_vars

\* C15: Close terminates, and what was acknowledged survives it
C15_CloseTerminates == (life.closing ~> (life.closed \/ ~life.closing))
C15_CloseDurable == life.closed => \A u \in acked \cup cbAcked : Durable(u)
C14_Recovers == [](cnt.faults = MaxFaults /\ Up /\ ~life.closing => <>(~Up \/ life.closing \/ DurableLen = Len(applied)))

TypeOK ==
  /\ root.epoch \in Nat /\ nextEpoch \in Nat /\ nextSeg \in Nat
  /\ \A c \in Clients : cl[c].pc \in {"idle", "start", "prepared", "waitp", "done"}
  /\ ps.pc \in {"wait", "mmwrite", "mmload", "mmintro", "segs", "swapwait", "snap", "commit", "ack", "cleanup", "exited"}
  /\ mg.pc \in {"wait", "plan", "load", "intro", "done", "exited"}
  /\ Up => root.epoch \in DOMAIN snaps

\* state constraint helpers / VIEW (ghost stamps that do not influence behaviour are hidden)
View == <<root, nextEpoch, nextSeg, nextUid, nextH, cl, pend, cbs, ps, mg, fsnp, fseg,
          pol, snaps, inst, rd, life, applied, epochLen, acked, cbAcked, batchOf, errd, cnt>>
=============================================================================
