------------------------------ MODULE Collector ------------------------------
(***************************************************************************)
(* The concrete machine of the top-N collector: a transcription of         *)
(* collectSingle / finalizeResults (search/collector/topn.go), checked by  *)
(* TLC to compute the abstract meaning defined in CollectorCore.tla for    *)
(* every hit list within the bounds (MC_collector.cfg).                    *)
(***************************************************************************)
EXTENDS CollectorCore

\* ---- the concrete machine -----------------------------------------------------
CONSTANTS MaxHits, KeyVals, MaxN, MaxFrom
VARIABLES hits, order, n, from, mode, key,   \* the input (fixed in Init)
          pos, store, lowest, done

vars == <<hits, order, n, from, mode, key, pos, store, lowest, done>>
NONE == [id |-> 0, hit |-> 0, k |-> <<>>]
Orders1 == {<<[desc |-> d, mfirst |-> m]>> : d \in BOOLEAN, m \in BOOLEAN}
HitLists == UNION {[1..L -> KeyVals] : L \in 0..MaxHits}

Init ==
  /\ \E ks \in HitLists : hits = [i \in DOMAIN ks |-> [id |-> i, hit |-> i, k |-> <<ks[i]>>]]
  /\ order \in Orders1
  /\ n \in 0..MaxN
  /\ mode \in {"slice", "after", "before"}
  /\ from \in (IF mode = "slice" THEN 0..MaxFrom ELSE {0})
  /\ key \in (IF mode = "slice" THEN {<<0>>} ELSE {<<v>> : v \in KeyVals})
  /\ pos = 1 /\ store = <<>> /\ lowest = NONE /\ done = FALSE

CollOrder == IF mode = "before" THEN RevOrder(order) ELSE order
\* insert into the store, which is kept sorted (both stores behave like this)
InsertSorted(s, d) == LET before == SelectSeq(s, LAMBDA x : Cmp(x, d, CollOrder) < 0)
                          after == SelectSeq(s, LAMBDA x : Cmp(x, d, CollOrder) >= 0)
                      IN before \o <<d>> \o after

CollectSingle ==
  /\ ~done /\ pos <= Len(hits)
  /\ LET d == hits[pos]
         skipAfter == mode # "slice" /\ CmpKeys(d.k, key, CollOrder, 1) <= 0
         skipLowest == lowest # NONE /\ Cmp(d, lowest, CollOrder) >= 0
     IN IF skipAfter \/ skipLowest
        THEN UNCHANGED <<store, lowest>>
        ELSE LET s2 == InsertSorted(store, d)
             IN IF Len(s2) > n + from
                THEN LET removed == s2[Len(s2)]
                     IN /\ store' = SubSeq(s2, 1, Len(s2) - 1)
                        /\ lowest' = IF lowest = NONE \/ Cmp(removed, lowest, CollOrder) < 0 THEN removed ELSE lowest
                ELSE store' = s2 /\ UNCHANGED lowest
  /\ pos' = pos + 1
  /\ UNCHANGED <<hits, order, n, from, mode, key, done>>

Finalize ==
  /\ ~done /\ pos > Len(hits)
  /\ done' = TRUE
  /\ store' = LET r == SubSeq(store, from + 1, Len(store)) IN IF mode = "before" THEN Reverse(r) ELSE r
  /\ UNCHANGED <<hits, order, n, from, mode, key, pos, lowest>>

Next == CollectSingle \/ Finalize
Spec == Init /\ [][Next]_vars

\* the machine computes the abstract meaning
Refines == done =>
  store = (CASE mode = "slice" -> Slice(hits, order, n, from)
             [] mode = "after" -> AfterKey(hits, order, n, key)
             [] mode = "before" -> BeforeKey(hits, order, n, key))
StoreBounded == Len(store) <= n + from
=============================================================================
