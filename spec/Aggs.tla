-------------------------------- MODULE Aggs --------------------------------
(***************************************************************************)
(* The meaning of aggregations (search/aggregations.go,                    *)
(* search/aggregations/*.go) as direct evaluation over the matched         *)
(* documents, independent of the requested size, offset, sort order and    *)
(* paging key.  A matched document is [id, n1, n2, k1, t1]: sequences of   *)
(* values of a multi-valued numeric field, of a weight field, of a keyword *)
(* field (terms as integers = dense ranks) and of a date field (seconds).  *)
(*                                                                         *)
(* Averages are kept as pairs (sum of v*w, sum of w); the real float is    *)
(* compared in thousandths.  Bucket aggregations consume a document once   *)
(* per value that falls into the bucket (range.go / terms.go Consume), and *)
(* nested metrics inside a bucket are fed on every such consumption.       *)
(***************************************************************************)
EXTENDS Integers, Sequences, FiniteSets, TLC

Range(s) == {s[i] : i \in DOMAIN s}
RECURSIVE SeqSum(_)
SeqSum(s) == IF s = <<>> THEN 0 ELSE Head(s) + SeqSum(Tail(s))
\* sum of F(d) over the sequence of documents D
SumOver(D, F(_)) == SeqSum([i \in DOMAIN D |-> F(D[i])])
Abs1(x) == IF x < 0 THEN -x ELSE x

AllVals(D, f) == UNION {Range(D[i][f]) : i \in DOMAIN D}
Count(D) == Len(D)
Sum(D, f) == SumOver(D, LAMBDA d : SeqSum(d[f]))
NVals(D, f) == SumOver(D, LAMBDA d : Len(d[f]))
HasVals(D, f) == AllVals(D, f) # {}
MinV(D, f) == CHOOSE x \in AllVals(D, f) : \A y \in AllVals(D, f) : x <= y
MaxV(D, f) == CHOOSE x \in AllVals(D, f) : \A y \in AllVals(D, f) : y <= x
\* weighted average: weight = first value of the weight field, 1 if the document has none
Weight(d, w) == IF w = "" \/ d[w] = <<>> THEN 1 ELSE d[w][1]
WSum(D, f, w) == SumOver(D, LAMBDA d : SeqSum(d[f]) * Weight(d, w))
WTot(D, f, w) == SumOver(D, LAMBDA d : Len(d[f]) * Weight(d, w))
\* real = num/den compared in thousandths, tolerance one unit in the last place
AvgOK(real1000, num, den) == den # 0 /\ Abs1(real1000 * den - num * 1000) <= Abs1(den)

\* ---- buckets --------------------------------------------------------------------
\* the consumptions of a bucket: the documents, once per value selected by In(v)
Consumptions(D, f, In(_)) ==
  LET k(i) == Cardinality({j \in DOMAIN D[i][f] : In(D[i][f][j])})
      RECURSIVE g(_)
      g(i) == IF i > Len(D) THEN <<>> ELSE [j \in 1..k(i) |-> D[i]] \o g(i + 1)
  IN g(1)
RangeBucket(D, f, lo, hi) == Consumptions(D, f, LAMBDA v : v >= lo /\ v < hi)
TermBucket(D, f, t) == Consumptions(D, f, LAMBDA v : v = t)
TermCount(D, f, t) == Len(TermBucket(D, f, t))
SingleValued(D, f) == \A i \in DOMAIN D : Len(D[i][f]) <= 1

\* ================= aggregation TREES (generated requests) ==============================
(***************************************************************************)
(* A request is a sequence of named aggregations [name, a]; an aggregation *)
(* a is a record with a.k \in {"count","sum","min","max","avg","wavg",     *)
(* "card","quant","terms","ranges","dranges"}; value sources are           *)
(* [f |-> field, flt |-> filter name] (search.Field wrapped by             *)
(* aggregations.FilterNumeric / FilterText / FilterDate when flt # "none");*)
(* bucket aggregations carry a.sub, a sequence of named aggregations fed   *)
(* on every consumption of the bucket.  The meaning is defined over a      *)
(* sequence D of CONSUMPTIONS (the matched documents at the top, the       *)
(* bucket's consumptions below), so nesting is plain recursion.            *)
(***************************************************************************)
Flt(name, v) ==
  CASE name = "none" -> TRUE
    [] name = "ge1" -> v >= 1
    [] name = "ne0" -> v # 0
    [] name = "lt2" -> v < 2
    [] name = "not1" -> v # 1
    [] name = "not2" -> v # 2
    [] name = "le3" -> v <= 3
    [] name = "ge60" -> v >= 60
    [] name = "nothing" -> FALSE
\* the values of document d that source s yields (order kept)
SVals(d, s) == SelectSeq(d[s.f], LAMBDA v : Flt(s.flt, v))
SAll(D, s) == UNION {Range(SVals(D[i], s)) : i \in DOMAIN D}
SSum(D, s) == SumOver(D, LAMBDA d : SeqSum(SVals(d, s)))
SN(D, s) == SumOver(D, LAMBDA d : Len(SVals(d, s)))
SMin(D, s) == CHOOSE x \in SAll(D, s) : \A y \in SAll(D, s) : x <= y
SMax(D, s) == CHOOSE x \in SAll(D, s) : \A y \in SAll(D, s) : y <= x
\* weight = FIRST value the weight source yields for the document, 1 if none (metric.go)
SWeight(d, w) == IF SVals(d, w) = <<>> THEN 1 ELSE SVals(d, w)[1]
SWSum(D, s, w) == SumOver(D, LAMBDA d : SeqSum(SVals(d, s)) * SWeight(d, w))
SWTot(D, s, w) == SumOver(D, LAMBDA d : Len(SVals(d, s)) * SWeight(d, w))
SCons(D, s, In(_)) ==
  LET k(i) == Cardinality({j \in DOMAIN SVals(D[i], s) : In(SVals(D[i], s)[j])})
      RECURSIVE g(_)
      g(i) == IF i > Len(D) THEN <<>> ELSE [j \in 1..k(i) |-> D[i]] \o g(i + 1)
  IN g(1)
SSingle(D, s) == \A i \in DOMAIN D : Len(SVals(D[i], s)) <= 1

\* Chk(a, r, D): the clauses that the reported result r of aggregation a violates over consumptions D
RECURSIVE Chk(_, _, _)
ChkSubs(a, rs, D) == UNION {Chk(a.sub[j].a, rs[j], D) : j \in DOMAIN a.sub}
Chk(a, r, D) ==
  CASE a.k = "count" -> IF r.v # Len(D) THEN {"C16_tree_count"} ELSE {}
    [] a.k = "sum" -> IF r.v # SSum(D, a.src) THEN {"C16_tree_sum"} ELSE {}
    [] a.k = "min" -> IF SAll(D, a.src) = {} THEN (IF r.none THEN {} ELSE {"C16_tree_min_of_nothing"})
                      ELSE IF r.none \/ r.v # SMin(D, a.src) THEN {"C16_tree_min"} ELSE {}
    [] a.k = "max" -> IF SAll(D, a.src) = {} THEN (IF r.none THEN {} ELSE {"C16_tree_max_of_nothing"})
                      ELSE IF r.none \/ r.v # SMax(D, a.src) THEN {"C16_tree_max"} ELSE {}
    [] a.k = "avg" -> IF SN(D, a.src) = 0 THEN (IF r.nan THEN {} ELSE {"C16_tree_avg_of_nothing"})
                      ELSE IF r.nan \/ ~AvgOK(r.v1000, SSum(D, a.src), SN(D, a.src)) THEN {"C16_tree_avg"} ELSE {}
    [] a.k = "wavg" -> IF SWTot(D, a.src, a.w) = 0 THEN (IF r.nan THEN {} ELSE {"C16_tree_weighted_avg_of_zero_weight"})
                       ELSE IF r.nan \/ ~AvgOK(r.v1000, SWSum(D, a.src, a.w), SWTot(D, a.src, a.w)) THEN {"C16_tree_weighted_avg"} ELSE {}
    [] a.k = "card" -> IF r.v # Cardinality(SAll(D, a.src)) THEN {"C16_tree_cardinality"} ELSE {}
    [] a.k = "quant" ->
         IF r.err THEN {}   \* an empty sketch has no quantiles
         ELSE (IF SAll(D, a.src) = {} THEN {}
               ELSE IF \E i \in DOMAIN r.q1000 : r.q1000[i] < SMin(D, a.src) * 1000 \/ r.q1000[i] > SMax(D, a.src) * 1000
                    THEN {"C16_tree_quantile_outside_min_max"} ELSE {})
              \cup (IF \E i \in DOMAIN r.q1000 : i > 1 /\ r.q1000[i] < r.q1000[i - 1] THEN {"C16_tree_quantiles_not_monotone"} ELSE {})
    [] a.k = "terms" ->
         LET B == r.buckets
             allT == SAll(D, a.src)
             ret == {B[i].term : i \in DOMAIN B}
             bk(t) == SCons(D, a.src, LAMBDA v : v = t)
         IN (IF \E i \in DOMAIN B : B[i].count # Len(bk(B[i].term)) THEN {"C16_tree_terms_bucket_count"} ELSE {})
            \cup (IF Len(B) # (IF Cardinality(allT) < a.size THEN Cardinality(allT) ELSE a.size) \/ Cardinality(ret) # Len(B) \/ ~(ret \subseteq allT)
                  THEN {"C16_tree_terms_wrong_buckets"} ELSE {})
            \cup (IF \E t \in allT \ ret : \E i \in DOMAIN B : Len(bk(t)) > B[i].count THEN {"C16_tree_terms_not_the_largest"} ELSE {})
            \cup (IF \E i \in DOMAIN B : i > 1 /\ B[i].count > B[i - 1].count THEN {"C16_tree_terms_order"} ELSE {})
            \cup (IF SSingle(D, a.src) /\ r.other # Len(D) - SeqSum([i \in DOMAIN B |-> B[i].count]) THEN {"C16_tree_terms_remainder"} ELSE {})
            \cup UNION {ChkSubs(a, B[i].sub, bk(B[i].term)) : i \in {j \in DOMAIN B : B[j].term \in allT}}
    [] a.k \in {"ranges", "dranges"} ->
         LET B == r.buckets
             bk(i) == SCons(D, a.src, LAMBDA v : v >= a.bounds[i][1] /\ v < a.bounds[i][2])
         IN (IF Len(B) # Len(a.bounds) THEN {"C16_tree_range_wrong_buckets"}
             ELSE (IF \E i \in DOMAIN B : B[i].count # Len(bk(i)) THEN {"C16_tree_range_bucket_count"} ELSE {})
                  \cup UNION {ChkSubs(a, B[i].sub, bk(i)) : i \in DOMAIN B})
ChkRequest(req, res, D) == UNION {Chk(req[j].a, res[j], D) : j \in DOMAIN req}
=============================================================================
