-------------------------------- MODULE Aggs --------------------------------
(***************************************************************************)
(* The meaning of aggregations (search/aggregations.go,                    *)
(* search/aggregations/*.go) as direct evaluation over the matched         *)
(* documents, independent of the requested size, offset, sort order and    *)
(* paging key.  A matched document is [id, n1, n2, k1, t1]: sequences of   *)
(* values of a multi-valued numeric field, of a weight field, of a keyword *)
(* field (terms as integers = dense ranks) and of a date field (seconds).  *)
(*                                                                         *)
(* Averages are kept as pairs (sum of v*w, sum of w); the real float is    *)
(* compared in thousandths.  Bucket aggregations consume a document once   *)
(* per value that falls into the bucket (range.go / terms.go Consume), and *)
(* nested metrics inside a bucket are fed on every such consumption.       *)
(***************************************************************************)
EXTENDS Integers, Sequences, FiniteSets, TLC

Range(s) == {s[i] : i \in DOMAIN s}
RECURSIVE SeqSum(_)
SeqSum(s) == IF s = <<>> THEN 0 ELSE Head(s) + SeqSum(Tail(s))
\* sum of F(d) over the sequence of documents D
SumOver(D, F(_)) == SeqSum([i \in DOMAIN D |-> F(D[i])])
Abs1(x) == IF x < 0 THEN -x ELSE x

AllVals(D, f) == UNION {Range(D[i][f]) : i \in DOMAIN D}
Count(D) == Len(D)
Sum(D, f) == SumOver(D, LAMBDA d : SeqSum(d[f]))
NVals(D, f) == SumOver(D, LAMBDA d : Len(d[f]))
HasVals(D, f) == AllVals(D, f) # {}
MinV(D, f) == CHOOSE x \in AllVals(D, f) : \A y \in AllVals(D, f) : x <= y
MaxV(D, f) == CHOOSE x \in AllVals(D, f) : \A y \in AllVals(D, f) : y <= x
\* weighted average: weight = first value of the weight field, 1 if the document has none
Weight(d, w) == IF w = "" \/ d[w] = <<>> THEN 1 ELSE d[w][1]
WSum(D, f, w) == SumOver(D, LAMBDA d : SeqSum(d[f]) * Weight(d, w))
WTot(D, f, w) == SumOver(D, LAMBDA d : Len(d[f]) * Weight(d, w))
\* real = num/den compared in thousandths, tolerance one unit in the last place
AvgOK(real1000, num, den) == den # 0 /\ Abs1(real1000 * den - num * 1000) <= Abs1(den)

\* ---- buckets --------------------------------------------------------------------
\* the consumptions of a bucket: the documents, once per value selected by In(v)
Consumptions(D, f, In(_)) ==
  LET k(i) == Cardinality({j \in DOMAIN D[i][f] : In(D[i][f][j])})
      RECURSIVE g(_)
      g(i) == IF i > Len(D) THEN <<>> ELSE [j \in 1..k(i) |-> D[i]] \o g(i + 1)
  IN g(1)
RangeBucket(D, f, lo, hi) == Consumptions(D, f, LAMBDA v : v >= lo /\ v < hi)
TermBucket(D, f, t) == Consumptions(D, f, LAMBDA v : v = t)
TermCount(D, f, t) == Len(TermBucket(D, f, t))
SingleValued(D, f) == \A i \in DOMAIN D : Len(D[i][f]) <= 1
=============================================================================
