SPECIFICATION TraceSpec
CONSTANTS
  BatchSize = 0
  MergeMax = 10
  MaxDocs = 0
  CloseOnSnapshotError = TRUE
  TraceFile = "trace.ndjson"
POSTCONDITION TraceAccepted
CHECK_DEADLOCK FALSE
