-------------------------------- MODULE DirFS --------------------------------
(***************************************************************************)
(* The file-system directory's Persist protocol                            *)
(* (index/directory_fs.go FileSystemDirectory.Persist) over a file system  *)
(* with a volatile cache:                                                  *)
(*     openat(O_CREAT|O_RDWR) -> flock(EX|NB) -> ftruncate(0) -> writes   *)
(*     -> fsync -> close -> return nil;  any error -> close + unlink.      *)
(*                                                                         *)
(* Layer 1 (Sys.. operators) is the meaning of the system calls on one    *)
(* path.  Layer 2 (P.. actions) is the protocol of the code.  The trace    *)
(* module DirFSTrace replays real strace records through layer 1 only, so  *)
(* whatever sequence of calls the code really makes is judged by the same  *)
(* properties.                                                             *)
(*                                                                         *)
(* Content is abstract: the item being written is bytes 1..size; a file is *)
(* [exists, len, good] where good = number of leading bytes that are the   *)
(* item's bytes; bytes good+1..len are not the item's (stale or zero).     *)
(***************************************************************************)
EXTENDS Integers, Sequences, FiniteSets, TLC

CONSTANTS MaxSize,      \* item sizes 0..MaxSize
          MaxPre,       \* pre-existing file lengths 0..MaxPre (or absent)
          Chunk,        \* bytes per write call in the protocol model
          Truncate,     \* TRUE = the repaired code (ftruncate after the lock is held)
          SyncOnPersist \* TRUE = the code calls File.Sync before reporting success

VARIABLES f,      \* cache view of the file: [exists, len, good]
          disk,   \* what survives power loss: [exists, len, good]
          fd,     \* [open, off, synced] of the descriptor Persist holds; synced = fsync seen after the last write
          pc,     \* protocol position / outcome
          item,   \* [size, failAt, cancel, pre, held]   failAt = -1: the item writer never fails;
                  \* pre = length of the file that existed before (-1: none); held = a Load of that
                  \* file is still open (it holds the shared lock), so the exclusive lock is refused
          okSeen  \* ghost: Persist reported success for this item

vars == <<f, disk, fd, pc, item, okSeen>>

NoFile == [exists |-> FALSE, len |-> 0, good |-> 0]
Max2(a, b) == IF a > b THEN a ELSE b
Min2(a, b) == IF a < b THEN a ELSE b

\* ---- layer 1: system calls ---------------------------------------------------
SysOpenCreate(F) == IF F.exists THEN F ELSE [exists |-> TRUE, len |-> 0, good |-> 0]
SysTruncate(F, n) == [F EXCEPT !.len = n, !.good = Min2(F.good, n)]
\* write n bytes of the item (bytes off+1..off+n) at offset off
SysWrite(F, off, n) == [F EXCEPT !.len = Max2(F.len, off + n),
                                  !.good = IF F.good >= off THEN Max2(F.good, off + n) ELSE F.good]
SysUnlink(F) == NoFile
Exact(F, size) == F.exists /\ F.len = size /\ F.good = size

\* ---- layer 2: the protocol ----------------------------------------------------
Init ==
  /\ \E pre \in {-1} \cup (0..MaxPre) :
        f = (IF pre < 0 THEN NoFile ELSE [exists |-> TRUE, len |-> pre, good |-> 0])
  /\ disk = f
  /\ fd = [open |-> FALSE, off |-> 0, synced |-> FALSE]
  /\ pc = "call"
  /\ \E size \in 0..MaxSize, failAt \in (-1)..MaxSize, cancel \in BOOLEAN, held \in BOOLEAN :
        /\ failAt <= size
        /\ held => f.exists
        /\ item = [size |-> size, failAt |-> failAt, cancel |-> cancel,
                   pre |-> (IF f.exists THEN f.len ELSE -1), held |-> held]
  /\ okSeen = FALSE

\* open + flock(EX|NB).  A file that a Load still holds refuses the lock: the call
\* fails having changed nothing (the truncation comes only after the lock is held).
PRefused ==
  /\ pc = "call" /\ item.held
  /\ pc' = "refused"
  /\ UNCHANGED <<f, disk, fd, item, okSeen>>

POpen ==
  /\ pc = "call" /\ ~item.held
  /\ f' = SysOpenCreate(f)
  /\ disk' = (IF disk.exists THEN disk ELSE [exists |-> TRUE, len |-> 0, good |-> 0]) \* directory entry: trusted durable
  /\ fd' = [open |-> TRUE, off |-> 0, synced |-> FALSE]
  /\ pc' = IF Truncate THEN "trunc" ELSE "write"
  /\ UNCHANGED <<item, okSeen>>

PTruncate ==
  /\ pc = "trunc"
  /\ f' = SysTruncate(f, 0)
  /\ pc' = "write"
  /\ UNCHANGED <<disk, fd, item, okSeen>>

\* the item writer: chunks of Chunk bytes; it fails once failAt bytes are out,
\* or gives up when cancelled (closeCh closed) before the first byte
PWrite ==
  /\ pc = "write"
  /\ IF item.cancel
     THEN pc' = "fail" /\ UNCHANGED <<f, fd>>
     ELSE LET limit == IF item.failAt >= 0 THEN item.failAt ELSE item.size
              n == Min2(Chunk, limit - fd.off)
          IN IF n > 0
             THEN /\ f' = SysWrite(f, fd.off, n)
                  /\ fd' = [fd EXCEPT !.off = fd.off + n, !.synced = FALSE]
                  /\ pc' = "write"
             ELSE /\ UNCHANGED <<f, fd>>
                  /\ pc' = IF item.failAt >= 0 THEN "fail" ELSE (IF SyncOnPersist THEN "sync" ELSE "close")
  /\ UNCHANGED <<disk, item, okSeen>>

PSync ==
  /\ pc = "sync"
  /\ disk' = f
  /\ fd' = [fd EXCEPT !.synced = TRUE]
  /\ pc' = "close"
  /\ UNCHANGED <<f, item, okSeen>>

PClose ==
  /\ pc = "close"
  /\ fd' = [fd EXCEPT !.open = FALSE]
  /\ pc' = "ok" /\ okSeen' = TRUE
  /\ UNCHANGED <<f, disk, item>>

\* error path: close, then remove the partial file
PCleanup ==
  /\ pc = "fail"
  /\ fd' = [fd EXCEPT !.open = FALSE]
  /\ f' = SysUnlink(f) /\ disk' = NoFile
  /\ pc' = "err"
  /\ UNCHANGED <<item, okSeen>>

\* the machine loses power: the cache is gone, the disk content is what is left
PowerLoss ==
  /\ pc # "dead"
  /\ f' = disk
  /\ fd' = [fd EXCEPT !.open = FALSE]
  /\ pc' = "dead"
  /\ UNCHANGED <<disk, item, okSeen>>

Next == PRefused \/ POpen \/ PTruncate \/ PWrite \/ PSync \/ PClose \/ PCleanup \/ PowerLoss
Spec == Init /\ [][Next]_vars

\* ---- properties (C13) ------------------------------------------------------------
\* success is reported only for an exact file ...
ExactOnSuccess == pc = "ok" => Exact(f, item.size)
\* ... that was flushed after its last byte and before the report, so that it
\* is still exact after a power loss at any later instant
SyncedOnSuccess == pc = "ok" => fd.synced /\ disk = f
DurableAfterSuccess == (pc = "dead" /\ okSeen) => Exact(f, item.size)
\* failure or cancellation leaves nothing under the item's name
NothingLeftOnFailure == pc = "err" => ~f.exists
\* a Persist refused because the item's file is in use leaves that file as it was
PreFile == [exists |-> TRUE, len |-> item.pre, good |-> 0]
RefusedLeavesFileIntact == pc = "refused" => f = PreFile /\ disk = PreFile
TypeOK == pc \in {"refused", "call", "trunc", "write", "sync", "close", "ok", "fail", "err", "dead"}
=============================================================================
