---------------------------- MODULE CollectorTrace ----------------------------
(***************************************************************************)
(* Real TopN searches (harness cmd/collprobe) judged by the abstract       *)
(* meaning of Collector.tla.  Every line carries the complete match list   *)
(* in index order with the integer sort keys of each match under the       *)
(* line's sort order, the request, and the ids that were really returned.  *)
(***************************************************************************)
EXTENDS CollectorCore, Json

CONSTANT TraceFile
VARIABLES l, viol, nq
tvars == <<l, viol, nq>>

TraceLog == ndJsonDeserialize(TraceFile)
N == Len(TraceLog)
Ev == TraceLog[l]
Report(c) == PrintT(<<"VIOL", c, l, nq>>)
AddViol(S) == viol \cup {<<c, l>> : c \in {x \in S : Report(x)}}
TInit == l = 1 /\ viol = {} /\ nq = 0
Step(name) == l <= N /\ Ev.ev = name /\ l' = l + 1

RECURSIVE Concat(_)
Concat(ss) == IF ss = <<>> THEN <<>> ELSE Head(ss) \o Concat(Tail(ss))

TTopN == /\ Step("topn")
         /\ viol' = AddViol(IF Ev.err # "" THEN {"C09_search_failed"}
                            ELSE IF IdsOf(Slice(Ev.hits, Ev.order, Ev.n, Ev.from)) # Ev.res THEN {"C09_wrong_slice"} ELSE {})
         /\ nq' = nq + 1
TAfter == /\ Step("after")
          /\ viol' = AddViol(IF Ev.err # "" THEN {"C09_search_failed"}
                             ELSE IF IdsOf(AfterKey(Ev.hits, Ev.order, Ev.n, Ev.key)) # Ev.res THEN {"C09_wrong_page_after"} ELSE {})
          /\ nq' = nq + 1
TBefore == /\ Step("before")
           /\ viol' = AddViol(IF Ev.err # "" THEN {"C09_search_failed"}
                              ELSE IF IdsOf(BeforeKey(Ev.hits, Ev.order, Ev.n, Ev.key)) # Ev.res THEN {"C09_wrong_page_before"} ELSE {})
           /\ nq' = nq + 1
\* a chain of pages under an order that distinguishes all matches visits every
\* match exactly once in ranking order ("last" = the match the before-chain started from)
TChain == /\ Step("chain")
          /\ LET all == IdsOf(Ranking(Ev.hits, Ev.order))
                 got == IF Ev.dir = "after" THEN Concat(Ev.pages) ELSE Concat(Reverse(Ev.pages)) \o Ev.last
             IN viol' = AddViol(IF Ev.err # "" THEN {"C09_search_failed"}
                                ELSE IF Total(Ev.hits, Ev.order) /\ got # all THEN {"C09_paging_does_not_visit_each_match_once_in_order"} ELSE {})
          /\ nq' = nq + 1

TNext == TTopN \/ TAfter \/ TBefore \/ TChain
TraceSpec == TInit /\ [][TNext]_tvars
TraceAccepted ==
  /\ IF TLCGet("stats").diameter - 1 = N THEN TRUE
     ELSE Print(<<"TRACE-NOT-CONSUMED", TLCGet("stats").diameter - 1, N>>, FALSE)
  /\ PrintT(<<"TRACE-DONE", N>>)
=============================================================================
