----------------------------- MODULE SearchTrace -----------------------------
(***************************************************************************)
(* Every line is a real Reader.Search call (harness cmd/searchprobe):      *)
(* "corpus" lines install the corpus that was really indexed (segments,    *)
(* pending deletions), "q" lines carry a query tree and the ids the real   *)
(* engine returned through AllMatches (res) and through a TopN collector   *)
(* large enough to hold everything (res2).  TLC evaluates Search!Eval.     *)
(***************************************************************************)
EXTENDS Search, Json

CONSTANT TraceFile
VARIABLES l, viol, C, nq

TraceLog == ndJsonDeserialize(TraceFile)
N == Len(TraceLog)
Ev == TraceLog[l]
vars == <<l, viol, C, nq>>

Report(c) == PrintT(<<"VIOL", c, l, nq>>)
AddViol(S) == viol \cup {<<c, l>> : c \in {x \in S : Report(x)}}

Init == l = 1 /\ viol = {} /\ C = [segs |-> <<>>] /\ nq = 0
Step(name) == l <= N /\ Ev.ev = name /\ l' = l + 1

TCorpus == /\ Step("corpus") /\ C' = Ev.c /\ nq' = nq + 1 /\ viol' = viol

NoDup(s) == Cardinality(Range(s)) = Len(s)
Judge(res, want) ==
  (IF \E id \in want : id \notin Range(res) THEN {"C07_live_matching_document_missed"} ELSE {})
  \cup (IF \E id \in Range(res) : id \notin want /\ id \in AllIds(C) THEN {"C07_non_matching_document_returned"} ELSE {})
  \cup (IF \E id \in Range(res) : id \notin AllIds(C) THEN {"C07_deleted_document_returned"} ELSE {})
  \cup (IF ~NoDup(res) THEN {"C07_document_returned_twice"} ELSE {})

TQuery ==
  /\ Step("q")
  /\ LET want == Eval(C, Ev.q)
     IN viol' = AddViol((IF Ev.err # "" THEN {"C07_query_failed"}
                         ELSE Judge(Ev.res, want) \cup Judge(Ev.res2, want)
                              \cup (IF Has(Ev, "res3") THEN Judge(Ev.res3, want) ELSE {}))   \* res3: scoring switched off
                        \* both searches ran on the SAME reader (all matches, then top-N): a reader is an immutable view
                        \cup (IF Ev.err = "" /\ Range(Ev.res) # Range(Ev.res2) THEN {"C04_same_reader_same_query_different_answers"} ELSE {}))
  /\ UNCHANGED <<C, nq>>

Next == TCorpus \/ TQuery
TraceSpec == Init /\ [][Next]_vars
TraceAccepted ==
  /\ IF TLCGet("stats").diameter - 1 = N THEN TRUE
     ELSE Print(<<"TRACE-NOT-CONSUMED", TLCGet("stats").diameter - 1, N>>, FALSE)
  /\ PrintT(<<"TRACE-DONE", N>>)
=============================================================================
