------------------------------- MODULE Layout -------------------------------
(***************************************************************************)
(* Search answers are functions of the abstract corpus only.               *)
(*                                                                         *)
(* Every build recipe (batch partitioning, forced merges, reopen, backup,  *)
(* offline writer, in-memory, segment format 1/2, optimisations off,       *)
(* scoring off, partition over k indexes + MultiSearch, extra documents    *)
(* deleted again) is a behaviour that reaches the SAME abstract corpus;    *)
(* this module defines, from the abstract corpus alone, what each answer   *)
(* must be: the match set (Search!Eval), the order under a total field     *)
(* sort, the count and a sum aggregation.  LayoutTrace.tla checks the      *)
(* answers of every real build against these values -- so any two builds   *)
(* agree because each agrees with the same function -- and compares the    *)
(* bit patterns of the scores across the builds for which the property     *)
(* promises equal scores.                                                  *)
(***************************************************************************)
EXTENDS Integers, Sequences, FiniteSets, TLC

S == INSTANCE Search

MISSING == 1000000

DocById(C, id) == CHOOSE d \in S!LiveDocs(C) : d.id = id
N1(d) == IF S!Has(d.n, "n1") /\ d.n["n1"] # <<>> THEN d.n["n1"][1] ELSE MISSING
\* the total field sort used by the probe: n1 ascending, missing last, then the id rank
Before(C, a, b) == LET da == DocById(C, a)
                       db == DocById(C, b)
                   IN N1(da) < N1(db) \/ (N1(da) = N1(db) /\ da.r < db.r)
RECURSIVE SeqOfSet(_)
SeqOfSet(X) == IF X = {} THEN <<>> ELSE LET x == CHOOSE y \in X : TRUE IN <<x>> \o SeqOfSet(X \ {x})
Ranked(C, ids) == SortSeq(SeqOfSet(ids), LAMBDA a, b : Before(C, a, b))
RECURSIVE SumN1(_, _)
SumN1(C, ids) == IF ids = {} THEN 0
                 ELSE LET x == CHOOSE y \in ids : TRUE
                          v == N1(DocById(C, x))
                      IN (IF v = MISSING THEN 0 ELSE v) + SumN1(C, ids \ {x})
=============================================================================
