SPECIFICATION Spec
INVARIANTS Identities NoDeleted
CHECK_DEADLOCK FALSE
