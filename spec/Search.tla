------------------------------- MODULE Search -------------------------------
(***************************************************************************)
(* The documented meaning of bluge's query types as sets of live           *)
(* documents (query.go; search/searcher/*.go for the conventions of the    *)
(* boolean searcher and the phrase path rule).                             *)
(*                                                                         *)
(* A corpus is a sequence of segments [docs, del]; a document is           *)
(* [id, t, n, d]: t maps a text field to its token sequence (a token is a  *)
(* sequence of letters, letters are small integers so that term order is   *)
(* definable), n maps a numeric field to its values, d maps a date field   *)
(* to whole seconds.  Token positions are 1-based.                         *)
(*                                                                         *)
(* This module is pure (no variables); SearchTrace.tla evaluates Eval on   *)
(* the corpora and queries that were really run through Reader.Search.     *)
(***************************************************************************)
EXTENDS Integers, Sequences, FiniteSets, TLC, GeoTable

Range(s) == {s[i] : i \in DOMAIN s}
Has(r, k) == k \in DOMAIN r
Min3(a, b, c) == IF a <= b /\ a <= c THEN a ELSE IF b <= c THEN b ELSE c
Abs1(x) == IF x < 0 THEN -x ELSE x

\* ---- corpus --------------------------------------------------------------------
LiveDocs(C) == UNION {{C.segs[s].docs[p] : p \in (1..Len(C.segs[s].docs)) \ Range(C.segs[s].del)} : s \in 1..Len(C.segs)}
AllIds(C) == {d.id : d \in LiveDocs(C)}
\* (keyword fields hold whole values as single terms, without positions)
Tokens(d, f) == IF Has(d.t, f) THEN d.t[f] ELSE IF Has(d, "k") /\ Has(d.k, f) THEN d.k[f] ELSE <<>>
Nums(d, f) == IF Has(d.n, f) THEN d.n[f] ELSE <<>>
Dates(d, f) == IF Has(d.d, f) THEN d.d[f] ELSE <<>>
Geo(d, f) == IF Has(d, "g") /\ Has(d.g, f) THEN d.g[f] ELSE <<>>
TermsOf(d, f) == Range(Tokens(d, f))
PosOf(d, f, v) == {i \in 1..Len(Tokens(d, f)) : Tokens(d, f)[i] = v}
Ids(D) == {d.id : d \in D}

\* ---- terms as letter sequences ----------------------------------------------------
IsPrefixOf(p, t) == Len(p) <= Len(t) /\ SubSeq(t, 1, Len(p)) = p
\* bytewise (lexicographic) order of terms
RECURSIVE LexLess(_, _)
LexLess(a, b) == IF b = <<>> THEN FALSE
                 ELSE IF a = <<>> THEN TRUE
                 ELSE IF Head(a) < Head(b) THEN TRUE
                 ELSE IF Head(a) > Head(b) THEN FALSE
                 ELSE LexLess(Tail(a), Tail(b))
LexLeq(a, b) == a = b \/ LexLess(a, b)
\* wildcard patterns: letters, 0 = '*' (any run), -1 = '?' (any one letter)
RECURSIVE Wild(_, _)
Wild(p, t) == IF p = <<>> THEN t = <<>>
              ELSE IF Head(p) = 0 THEN Wild(Tail(p), t) \/ (t # <<>> /\ Wild(p, Tail(t)))
              ELSE t # <<>> /\ (Head(p) = -1 \/ Head(p) = Head(t)) /\ Wild(Tail(p), Tail(t))
\* edit distance with adjacent transpositions (the fuzzy searcher builds its
\* Levenshtein automata with transposition = true): optimal string alignment
RECURSIVE Lev(_, _)
Lev(a, b) == IF a = <<>> THEN Len(b)
             ELSE IF b = <<>> THEN Len(a)
             ELSE LET base == Min3(Lev(Tail(a), b) + 1, Lev(a, Tail(b)) + 1,
                                   Lev(Tail(a), Tail(b)) + (IF Head(a) = Head(b) THEN 0 ELSE 1))
                  IN IF Len(a) >= 2 /\ Len(b) >= 2 /\ a[1] = b[2] /\ a[2] = b[1]
                     THEN LET tr == Lev(Tail(Tail(a)), Tail(Tail(b))) + 1 IN IF tr < base THEN tr ELSE base
                     ELSE base
\* regular expressions: [k |-> "lit", c], [k |-> "any"], [k |-> "cat", a, b], [k |-> "alt", a, b],
\* [k |-> "star", a], [k |-> "eps"], [k |-> "cls", s (set of letters as sequence)]
RECURSIVE ReMatch(_, _)
ReMatch(r, t) ==
  CASE r.k = "eps" -> t = <<>>
    [] r.k = "lit" -> t = <<r.c>>
    [] r.k = "any" -> Len(t) = 1
    [] r.k = "cls" -> Len(t) = 1 /\ t[1] \in Range(r.s)
    [] r.k = "alt" -> ReMatch(r.a, t) \/ ReMatch(r.b, t)
    [] r.k = "cat" -> \E i \in 0..Len(t) : ReMatch(r.a, SubSeq(t, 1, i)) /\ ReMatch(r.b, SubSeq(t, i + 1, Len(t)))
    [] r.k = "star" -> t = <<>> \/ \E i \in 1..Len(t) : ReMatch(r.a, SubSeq(t, 1, i)) /\ ReMatch(r, SubSeq(t, i + 1, Len(t)))

\* ---- phrases (search_phrase.go findPhrasePaths) -----------------------------------
\* terms : sequence of sets of alternative terms (as sequences); a path picks
\* one location per phrase position, never re-using a (term, location), and
\* the sum of |prev + 1 - loc| over the steps must not exceed the slop
RECURSIVE PhrasePath(_, _, _, _, _, _)
PhrasePath(d, f, terms, prev, slop, used) ==
  IF terms = <<>> THEN TRUE
  ELSE \E v \in Range(Head(terms)) : \E loc \in PosOf(d, f, v) :
          LET dist == IF prev = 0 THEN 0 ELSE Abs1(prev + 1 - loc)
          IN /\ (prev = 0 \/ slop - dist >= 0)
             /\ <<v, loc>> \notin used
             /\ PhrasePath(d, f, Tail(terms), loc, slop - dist, used \cup {<<v, loc>>})

\* ---- queries ----------------------------------------------------------------------
\* q is a record with q.t the kind
QMust(q) == IF Has(q, "must") THEN q.must ELSE <<>>
QShould(q) == IF Has(q, "should") THEN q.should ELSE <<>>
QNots(q) == IF Has(q, "nots") THEN q.nots ELSE <<>>
RECURSIVE Eval(_, _)
Eval(C, q) ==
  LET D == LiveDocs(C) IN
  CASE q.t = "all" -> Ids(D)
    [] q.t = "none" -> {}
    [] q.t = "term" -> Ids({d \in D : q.v \in TermsOf(d, q.f)})
    [] q.t = "match" ->   \* analysed text: any term (or) / every term (and); no terms: nothing
         IF q.terms = <<>> THEN {}
         ELSE IF q.op = "or" THEN Ids({d \in D : \E i \in DOMAIN q.terms : q.terms[i] \in TermsOf(d, q.f)})
         ELSE Ids({d \in D : \A i \in DOMAIN q.terms : q.terms[i] \in TermsOf(d, q.f)})
    [] q.t = "phrase" -> Ids({d \in D : PhrasePath(d, q.f, q.terms, 0, q.slop, {})})
    [] q.t = "prefix" -> Ids({d \in D : \E v \in TermsOf(d, q.f) : IsPrefixOf(q.v, v)})
    [] q.t = "wildcard" -> Ids({d \in D : \E v \in TermsOf(d, q.f) : Wild(q.p, v)})
    [] q.t = "regexp" -> Ids({d \in D : \E v \in TermsOf(d, q.f) : ReMatch(q.r, v)})
    [] q.t = "fuzzy" ->   \* within the edit distance AND sharing the first pre letters of the query term
         LET pl == IF q.pre < Len(q.v) THEN q.pre ELSE Len(q.v)
         IN Ids({d \in D : \E v \in TermsOf(d, q.f) :
                    Lev(q.v, v) <= q.fuzz /\ IsPrefixOf(SubSeq(q.v, 1, pl), v)})
    [] q.t = "trange" ->  \* an empty end point means unbounded
         Ids({d \in D : \E v \in TermsOf(d, q.f) :
                 /\ (q.lo = <<>> \/ LexLess(q.lo, v) \/ (q.ilo /\ v = q.lo))
                 /\ (q.hi = <<>> \/ LexLess(v, q.hi) \/ (q.ihi /\ v = q.hi))})
    [] q.t = "nrange" ->  \* haslo / hashi = FALSE means unbounded
         Ids({d \in D : \E x \in Range(Nums(d, q.f)) :
                 /\ (~q.haslo \/ q.lo < x \/ (q.ilo /\ x = q.lo))
                 /\ (~q.hashi \/ x < q.hi \/ (q.ihi /\ x = q.hi))})
    [] q.t = "drange" ->
         Ids({d \in D : \E x \in Range(Dates(d, q.f)) :
                 /\ (~q.haslo \/ q.lo < x \/ (q.ilo /\ x = q.lo))
                 /\ (~q.hashi \/ x < q.hi \/ (q.ihi /\ x = q.hi))})
    [] q.t = "geobox" ->  \* box = <<left, top, right, bottom>> in half degrees, points in whole degrees (never on an
                          \* edge); right < left means that the box crosses the date line
         Ids({d \in D : \E i \in DOMAIN Geo(d, q.f) :
                 LET x == 2 * Geo(d, q.f)[i][1]
                     y == 2 * Geo(d, q.f)[i][2]
                 IN /\ y >= q.box[4] /\ y <= q.box[2]
                    /\ IF q.box[3] >= q.box[1] THEN x >= q.box[1] /\ x <= q.box[3]
                       ELSE x >= q.box[1] \/ x <= q.box[3]})
    [] q.t = "geodist" -> \* great-circle distance from the centre (GeoTable: km on the mean sphere; the radii used
                          \* keep 2.4% clear of every tabulated distance, so the earth model cannot decide membership)
         Ids({d \in D : \E i \in DOMAIN Geo(d, q.f) : GeoKm(q.c, Geo(d, q.f)[i]) <= q.km})
    [] q.t = "bool" ->
         \* must: all; must-not: none; should: at least min (when there is no must
         \* clause at least one should clause has to match anyway); only must-not
         \* clauses: everything else
         \* (the clause results are computed once each, as functions)
         LET qm == QMust(q)
             qs == QShould(q)
             qn == QNots(q)
             rm == [i \in DOMAIN qm |-> Eval(C, qm[i])]
             rs == [i \in DOMAIN qs |-> Eval(C, qs[i])]
             rn == [i \in DOMAIN qn |-> Eval(C, qn[i])]
             all == Ids(D)
             must == {id \in all : \A i \in DOMAIN rm : id \in rm[i]}
             nots == UNION {rn[i] : i \in DOMAIN rn}
             need == IF qm = <<>> /\ q.min < 1 THEN 1 ELSE q.min
             shd == {id \in all : Cardinality({i \in DOMAIN rs : id \in rs[i]}) >= need}
         IN IF qm = <<>> /\ qs = <<>> /\ qn = <<>> THEN {}
            ELSE IF qm = <<>> /\ qs = <<>> THEN all \ nots
            ELSE IF qs = <<>> THEN must \ nots
            ELSE IF qm = <<>> THEN shd \ nots
            ELSE (must \cap (IF q.min > 0 THEN shd ELSE all)) \ nots

\* ---- sanity of the oracle itself (checked by TLC on small corpora: Search MC) --------
\* a boolean query with a single must clause means that clause; De Morgan style identities
BoolIdentities(C, a, b) ==
  /\ Eval(C, [t |-> "bool", must |-> <<a>>, should |-> <<>>, nots |-> <<>>, min |-> 0]) = Eval(C, a)
  /\ Eval(C, [t |-> "bool", must |-> <<a, b>>, should |-> <<>>, nots |-> <<>>, min |-> 0]) = Eval(C, a) \cap Eval(C, b)
  /\ Eval(C, [t |-> "bool", must |-> <<>>, should |-> <<a, b>>, nots |-> <<>>, min |-> 1]) = Eval(C, a) \cup Eval(C, b)
  /\ Eval(C, [t |-> "bool", must |-> <<>>, should |-> <<a, b>>, nots |-> <<>>, min |-> 2]) = Eval(C, a) \cap Eval(C, b)
  /\ Eval(C, [t |-> "bool", must |-> <<a>>, should |-> <<>>, nots |-> <<b>>, min |-> 0]) = Eval(C, a) \ Eval(C, b)
  /\ Eval(C, [t |-> "bool", must |-> <<>>, should |-> <<>>, nots |-> <<b>>, min |-> 0]) = AllIds(C) \ Eval(C, b)
=============================================================================
