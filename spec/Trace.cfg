SPECIFICATION TraceSpec
CONSTANTS
  Ids = {"a", "b", "c", "d", "zz"}
  Clients = {"c1", "c2", "c3", "c4", "c5", "c6", "c7", "c8"}
  Readers = {"r1", "r2", "r3", "r4"}
  Shapes = {}
  Safe = TRUE
  WithCallbacks = FALSE
  MinMemMerge = 2
  KeepN = 1
  TruncateOnPersist = TRUE
  WaitForSwap = TRUE
  MaxInv = 0
  MaxCrash = 0
  MaxMerges = 0
  MaxFaults = 0
  MaxReaderOpens = 0
  AllowClose = FALSE
  TraceFile = "trace.ndjson"
  AbsPrefix <- MemoAbsPrefix
POSTCONDITION TraceAccepted
CHECK_DEADLOCK FALSE
