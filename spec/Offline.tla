------------------------------- MODULE Offline -------------------------------
(***************************************************************************)
(* The offline writer (writer_offline.go: OfflineWriter = buffering        *)
(* wrapper; index/writer_offline.go: WriterOffline).                       *)
(*                                                                         *)
(* Insert buffers documents and flushes a batch of batchSize+1 documents   *)
(* as ONE segment file; Close flushes the rest, then merges the first      *)
(* min(MergeMax, n) segment files into a new one (appended LAST) until a   *)
(* single file is left, and only then writes the one snapshot that names   *)
(* it.  One action per directory operation, so that a crash or an error    *)
(* between any two of them is in the state space.                          *)
(***************************************************************************)
EXTENDS Integers, Sequences, FiniteSets, TLC

CONSTANTS BatchSize,    \* the wrapper flushes when more than BatchSize documents are buffered
          MergeMax,     \* 10 in the code
          MaxDocs,      \* bound for model checking
          CloseOnSnapshotError   \* TRUE: the repaired code (D16); FALSE: Close returned without releasing the final
                                 \* segment when recording the snapshot failed

VARIABLES buffer,    \* documents inserted and not yet flushed
          segIDs,    \* ids of the segment files that make up the index, in order
          segCount,  \* next id
          files,     \* id -> sequence of documents (segment files in the directory)
          snap,      \* id -> sequence of segment ids (snapshot files)
          handles,   \* sequence of records [id, open] (Load results)
          pc,        \* "open" | "closing" | "merging" | "final" | "closed" | "failed" | "crashed"
          mg,        \* the merge round in flight
          all        \* ghost: every document inserted, in order

vars == <<buffer, segIDs, segCount, files, snap, handles, pc, mg, all>>

Range(s) == {s[i] : i \in DOMAIN s}
Put(f, k, v) == [x \in DOMAIN f \cup {k} |-> IF x = k THEN v ELSE f[x]]
Drop(f, k) == [x \in DOMAIN f \ {k} |-> f[x]]
RECURSIVE Concat(_)
Concat(ss) == IF ss = <<>> THEN <<>> ELSE Head(ss) \o Concat(Tail(ss))
Bag(s) == [d \in Range(s) |-> Cardinality({i \in DOMAIN s : s[i] = d})]
Min2(a, b) == IF a < b THEN a ELSE b

NoMerge == [ids |-> <<>>, loaded |-> 0, persisted |-> FALSE, closed |-> FALSE, removed |-> 0]

Init ==
  /\ buffer = <<>> /\ segIDs = <<>> /\ segCount = 0 /\ files = <<>> /\ snap = <<>>
  /\ handles = <<>> /\ pc = "open" /\ mg = NoMerge /\ all = <<>>

\* OfflineWriter.Insert (without the flush)
Insert(d) ==
  /\ pc = "open" /\ Len(buffer) <= BatchSize /\ Len(all) < MaxDocs
  /\ buffer' = Append(buffer, d) /\ all' = Append(all, d)
  /\ UNCHANGED <<segIDs, segCount, files, snap, handles, pc, mg>>

\* the flush inside Insert (buffer over the batch size) or at the start of Close (anything buffered):
\* WriterOffline.Batch = one Persist of a new segment file
Flush ==
  /\ \/ pc = "open" /\ Len(buffer) > BatchSize
     \/ pc = "closing" /\ buffer # <<>>
  /\ files' = Put(files, segCount, buffer)
  /\ segIDs' = Append(segIDs, segCount) /\ segCount' = segCount + 1
  /\ buffer' = <<>>
  /\ UNCHANGED <<snap, handles, pc, mg, all>>

CloseCall ==
  /\ pc = "open" /\ Len(buffer) <= BatchSize
  /\ pc' = "closing"
  /\ UNCHANGED <<buffer, segIDs, segCount, files, snap, handles, mg, all>>

\* doMerge: while more than one segment: take the first min(MergeMax, n)
MergePick ==
  /\ pc \in {"closing", "merging"} /\ buffer = <<>> /\ mg = NoMerge /\ Len(segIDs) > 1
  /\ LET k == Min2(MergeMax, Len(segIDs))
     IN /\ mg' = [NoMerge EXCEPT !.ids = SubSeq(segIDs, 1, k)]
        /\ segIDs' = SubSeq(segIDs, k + 1, Len(segIDs))
  /\ pc' = "merging"
  /\ UNCHANGED <<buffer, segCount, files, snap, handles, all>>

MergeLoad ==
  /\ pc = "merging" /\ mg.ids # <<>> /\ mg.loaded < Len(mg.ids)
  /\ handles' = Append(handles, [id |-> mg.ids[mg.loaded + 1], open |-> TRUE])
  /\ mg' = [mg EXCEPT !.loaded = @ + 1]
  /\ UNCHANGED <<buffer, segIDs, segCount, files, snap, pc, all>>

MergePersist ==
  /\ pc = "merging" /\ mg.ids # <<>> /\ mg.loaded = Len(mg.ids) /\ ~mg.persisted
  /\ files' = Put(files, segCount, Concat([i \in DOMAIN mg.ids |-> files[mg.ids[i]]]))
  /\ segIDs' = Append(segIDs, segCount) /\ segCount' = segCount + 1
  /\ mg' = [mg EXCEPT !.persisted = TRUE]
  /\ UNCHANGED <<buffer, snap, handles, pc, all>>

MergeCloseHandles ==
  /\ pc = "merging" /\ mg.persisted /\ ~mg.closed
  /\ handles' = [i \in DOMAIN handles |-> [handles[i] EXCEPT !.open = FALSE]]
  /\ mg' = [mg EXCEPT !.closed = TRUE]
  /\ UNCHANGED <<buffer, segIDs, segCount, files, snap, pc, all>>

MergeRemove ==
  /\ pc = "merging" /\ mg.closed /\ mg.removed < Len(mg.ids)
  /\ files' = Drop(files, mg.ids[mg.removed + 1])
  /\ mg' = IF mg.removed + 1 = Len(mg.ids) THEN NoMerge ELSE [mg EXCEPT !.removed = @ + 1]
  /\ UNCHANGED <<buffer, segIDs, segCount, snap, handles, pc, all>>

\* Close after the merges: an empty snapshot, or load the last file and name it
FinalEmpty ==
  /\ pc = "closing" /\ buffer = <<>> /\ segIDs = <<>>
  /\ snap' = Put(snap, segCount, <<>>)
  /\ pc' = "closed"
  /\ UNCHANGED <<buffer, segIDs, segCount, files, handles, mg, all>>

FinalLoad ==
  /\ pc \in {"closing", "merging"} /\ buffer = <<>> /\ mg = NoMerge /\ Len(segIDs) = 1
  /\ handles' = Append(handles, [id |-> segIDs[1], open |-> TRUE])
  /\ pc' = "final"
  /\ UNCHANGED <<buffer, segIDs, segCount, files, snap, mg, all>>

FinalSnapshot ==
  /\ pc = "final" /\ snap = <<>>
  /\ snap' = Put(snap, segIDs[1], <<segIDs[1]>>)
  /\ UNCHANGED <<buffer, segIDs, segCount, files, handles, pc, mg, all>>

FinalClose ==
  /\ pc = "final" /\ snap # <<>>
  /\ handles' = [i \in DOMAIN handles |-> [handles[i] EXCEPT !.open = FALSE]]
  /\ pc' = "closed"
  /\ UNCHANGED <<buffer, segIDs, segCount, files, snap, mg, all>>

\* a directory operation of Close returns an error: Close gives up.  doMerge closes what it had opened
\* (closeOpenedSegs); the failure to record the snapshot is the one place where the code under test did not.
Fail ==
  /\ pc \in {"closing", "merging", "final"}
  /\ IF pc = "final" /\ snap = <<>> /\ ~CloseOnSnapshotError
     THEN UNCHANGED handles
     ELSE handles' = [i \in DOMAIN handles |-> [handles[i] EXCEPT !.open = FALSE]]
  /\ pc' = "failed"
  /\ UNCHANGED <<buffer, segIDs, segCount, files, snap, mg, all>>

\* the process dies: the files stay as they are
Crash ==
  /\ pc \notin {"closed", "failed", "crashed"}
  /\ pc' = "crashed"
  /\ handles' = [i \in DOMAIN handles |-> [handles[i] EXCEPT !.open = FALSE]]
  /\ UNCHANGED <<buffer, segIDs, segCount, files, snap, mg, all>>

Next ==
  \/ \E d \in 1..MaxDocs : d = Len(all) + 1 /\ Insert(d)
  \/ Flush \/ CloseCall \/ MergePick \/ MergeLoad \/ MergePersist \/ MergeCloseHandles \/ MergeRemove
  \/ FinalEmpty \/ FinalLoad \/ FinalSnapshot \/ FinalClose \/ Crash \/ Fail

Spec == Init /\ [][Next]_vars
Progress == Flush \/ CloseCall \/ MergePick \/ MergeLoad \/ MergePersist \/ MergeCloseHandles \/ MergeRemove
              \/ FinalEmpty \/ FinalLoad \/ FinalSnapshot \/ FinalClose
LiveSpec == Spec /\ WF_vars(Progress)

-----------------------------------------------------------------------------
\* what an OpenReader on the directory shows: the newest snapshot's segments
SnapDocs(e) == Concat([i \in DOMAIN snap[e] |-> files[snap[e][i]]])
Newest == CHOOSE e \in DOMAIN snap : \A f \in DOMAIN snap : f <= e

\* the documents are always all there: in the buffer, in the index's files, or in the inputs of the merge in flight
\* (every document is inserted once, so "the same multiset" is "the same set and the same total length"; written
\* with sets because TLC re-evaluates a concatenation at every use)
SetOf(s) == {s[i] : i \in DOMAIN s}
\* total number of documents in a set of files (no recursion: TLC re-evaluates the arguments of a recursive
\* operator at every level when the formula is primed)
SumLen(ids) == Cardinality(UNION {{<<id, i>> : i \in DOMAIN files[id]} : id \in ids})
HeldIds == SetOf(segIDs) \cup (IF mg.ids # <<>> /\ ~mg.persisted THEN SetOf(mg.ids) ELSE {})
O_NothingLost == /\ SetOf(buffer) \cup UNION {SetOf(files[id]) : id \in HeldIds} = SetOf(all)
                 /\ Len(buffer) + SumLen(HeldIds) = Len(all)
\* a snapshot only ever names files that exist and hold everything: an offline index is absent or complete
O_SnapshotComplete == \A e \in DOMAIN snap :
      /\ \A i \in DOMAIN snap[e] : snap[e][i] \in DOMAIN files
      /\ UNION {SetOf(files[snap[e][i]]) : i \in DOMAIN snap[e]} = SetOf(all)
      /\ SumLen({snap[e][i] : i \in DOMAIN snap[e]}) = Len(all)
\* after Close: one snapshot, exactly its files in the directory, every handle released
O_Closed == pc = "closed" =>
      /\ Cardinality(DOMAIN snap) = 1
      /\ DOMAIN files = Range(snap[Newest])
      /\ \A i \in DOMAIN handles : ~handles[i].open
\* Close returned, with or without an error: nothing stays open
O_HandlesReleased == pc \in {"closed", "failed"} => \A i \in DOMAIN handles : ~handles[i].open
\* segment ids are never re-used and files of live segments are never removed
O_Ids == /\ \A i \in DOMAIN segIDs : segIDs[i] < segCount /\ segIDs[i] \in DOMAIN files
         /\ \A i, j \in DOMAIN segIDs : i # j => segIDs[i] # segIDs[j]
         /\ \A id \in DOMAIN files : id < segCount
\* a file is only loaded / removed while no handle on it ... removal happens after the handles are closed
O_RemoveAfterClose == [][\A id \in DOMAIN files : id \notin DOMAIN files' =>
                            \A i \in DOMAIN handles : handles[i].id = id => ~handles[i].open]_vars
\* every merge round shrinks the number of segments
O_RoundsShrink == [][MergePersist => Len(segIDs') + (IF mg'.ids = <<>> THEN 0 ELSE 0) < Len(segIDs) + Len(mg.ids)]_vars
O_Terminates == <>(pc \in {"closed", "failed", "crashed"})
TypeOK == /\ pc \in {"open", "closing", "merging", "final", "closed", "failed", "crashed"}
          /\ mg.loaded <= Len(mg.ids) /\ mg.removed <= Len(mg.ids)
=============================================================================
