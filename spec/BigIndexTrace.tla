--------------------------- MODULE BigIndexTrace ---------------------------
(***************************************************************************)
(* The abstract index of C01 / C03 at a size where buffers, chunks and     *)
(* bitmap containers of the implementation overflow: documents are the     *)
(* integers 0..n, batches are id ranges (lo, hi, step), observations are a *)
(* count plus sampled lookups by id.  cmd/bigprobe logs what the real      *)
(* writer, a reader opened on the directory after Close, and a writer      *)
(* reopened on it answer; this module keeps the set of live ids.           *)
(***************************************************************************)
EXTENDS Integers, Sequences, FiniteSets, TLC, Json, TLCExt

CONSTANT TraceFile
TraceLog == ndJsonDeserialize(TraceFile)
N == Len(TraceLog)
VARIABLES l, live, viol, run
vars == <<l, live, viol, run>>
Ev == TraceLog[l]
Range(s) == {s[i] : i \in DOMAIN s}
Ids(e) == {i \in e.lo..e.hi : (i - e.lo) % e.step = 0}

Report(c) == PrintT(<<"VIOL", c, l, run>>)
AddViol(S) == viol \cup {<<c, run>> : c \in {x \in S : <<x, run>> \notin viol /\ Report(x)}}
Step(name) == l <= N /\ Ev.ev = name /\ l' = l + 1

Init == l = 1 /\ live = {} /\ viol = {} /\ run = 0
TReset == Step("bigreset") /\ live' = {} /\ run' = Ev.run /\ viol' = viol
\* a batch: inserts and updates add their ids (ids are inserted once, updates replace), deletes remove them
TOp == /\ Step("bigop")
       /\ live' = IF Ev.err # "" THEN live
                  ELSE IF Ev.kind = "del" THEN live \ Ids(Ev) ELSE live \cup Ids(Ev)
       /\ viol' = AddViol(IF Ev.err # "" THEN {"C01_big_batch_failed", "C03_big_batch_failed"} ELSE {})
       /\ UNCHANGED run
TClose == Step("bigclose") /\ viol' = AddViol(IF Ev.err # "" THEN {"C03_big_close_failed"} ELSE {}) /\ UNCHANGED <<live, run>>
\* the writer's own reader decides C01; the reader / writer opened on the directory after Close decide C03
TObs ==
  /\ Step("bigobs")
  /\ LET p == IF Ev.where = "writer" THEN "C01_big_" ELSE "C03_big_"
         bad == \/ Ev.count # Cardinality(live)
                \/ \E i \in Range(Ev.present) : i \notin live
                \/ \E i \in Range(Ev.absent) : i \in live
     IN viol' = AddViol(IF Ev.err # "" THEN {IF Ev.where = "writer" THEN "C01_big_reader_failed" ELSE "C03_big_complete_index_does_not_open"}
                        ELSE IF bad THEN {IF Ev.where = "writer" THEN "C01_big_reader_differs_from_abstract_index"
                                          ELSE "C03_big_recovered_index_differs_from_abstract_index"}
                        ELSE {})
  /\ UNCHANGED <<live, run>>
Next == TReset \/ TOp \/ TClose \/ TObs
TraceSpec == Init /\ [][Next]_vars
TraceAccepted ==
  /\ IF TLCGet("stats").diameter - 1 = N THEN TRUE
     ELSE Print(<<"TRACE-NOT-CONSUMED", TLCGet("stats").diameter - 1, N>>, FALSE)
  /\ PrintT(<<"TRACE-DONE", N>>)
=============================================================================
