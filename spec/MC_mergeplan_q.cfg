\* any contract-abiding, progressing planner: at rest within budget, plans decrease the measure, convergence
SPECIFICATION Spec
CONSTANTS
  MaxSegmentsPerTier = 2
  MaxSegmentSize = 12
  TierGrowth = 2
  SegmentsPerMergeTask = 3
  FloorSegmentSize = 1
  ArriveSizes = {1, 2, 5}
  MaxSegs = 3
  MaxArrivals = 3
INVARIANTS TypeOK RestWithinBudget BudgetIsLogarithmic
PROPERTIES PlanDecreases
CHECK_DEADLOCK FALSE
