------------------------------ MODULE BlugeTrace ------------------------------
(***************************************************************************)
(* Validation of executions recorded from the real index writer (under     *)
(* the gate controller, /verif/harness) against BlugeCore.tla.             *)
(*                                                                         *)
(* The trace drives BlugeCore's own variables:                             *)
(*   - the ghost history (applied, epochLen, batchOf, acked, cbAcked,      *)
(*     retBefore, errd) is driven ONLY by events, with the update rules of *)
(*     BlugeCore's actions;                                                *)
(*   - the concrete state (root, files, handles, readers, life) ADOPTS     *)
(*     what the code logged at its linearization points;                   *)
(*   - the deletion policy is COMPUTED with BlugeCore!PolicyCommit from    *)
(*     the logged commits.                                                 *)
(* After every event all property definitions of BlugeCore are evaluated   *)
(* in the new state, together with event clauses (what the specification's *)
(* pure transition functions compute vs. what was logged, observations     *)
(* through the public API vs. Abs).  A failed clause is recorded in viol   *)
(* (and printed) and the trace CONTINUES, so one TLC run decides every     *)
(* property on the whole trace.                                            *)
(***************************************************************************)
EXTENDS BlugeCore, Json, TLCExt

CONSTANT TraceFile
VARIABLES l,      \* position in the trace
          viol,   \* set of <<clause, first line>> that failed
          tv      \* trace-only state

TraceLog == ndJsonDeserialize(TraceFile)
N == Len(TraceLog)
Ev == TraceLog[l]
Has(e, f) == f \in DOMAIN e

tvars == <<vars, l, viol, tv>>

TvInit == [absq |-> <<{}>>,        \* memo of the abstract index: absq[k+1] = AbsPrefix(k), extended by AbsStep at every IntroBatch
                                  \* (Trace.cfg substitutes MemoAbsPrefix for AbsPrefix; re-checked against the definition at CloseReturn)
           robs |-> <<>>,         \* reader -> observation at open
           run |-> 0,             \* number of the run (Reset events)
           pending |-> {},        \* files whose Persist is in flight: <<kind, id>>
           mem |-> FALSE,         \* in-memory directory (no durability clauses)
           openfault |-> FALSE,   \* a directory operation failed (injected) since the last OpenCall and before its OpenReturn
           noasync |-> FALSE,     \* the writer runs without an error callback (the default of the public configuration)
           free |-> FALSE,        \* free-running execution: events of different goroutines that are not ordered by a
                                  \* lock (handle closes vs. removals) may be logged in either order, so the clauses
                                  \* that relate them are not evaluated
           strictdiv |-> 0,
           lastAckLen |-> 0,
           opened |-> FALSE,
           returned |-> {},
           cbwant |-> {},         \* uids whose batch carries a persisted-callback
           segdocs |-> <<>>,      \* segment id -> documents (segments are immutable)
           prep |-> <<>>,         \* uid -> ids of the segments of the root read by prepareSegment
           pgrab |-> <<>>,        \* entries of the root grabbed by the persister
           mwake |-> <<>>,        \* entries of the root read by the merger at wake-up
           mtask |-> <<>>,        \* new segment id -> [old, mem] of the merge in flight
           ploaded |-> {},        \* segment files written by the persister since its grab
           fcall |-> <<>>,        \* free-running reader -> batches that had returned when Writer.Reader() was called
           fobs |-> <<>>]         \* free-running reader -> observation right after it was obtained

TraceInit == Init /\ l = 1 /\ viol = {} /\ tv = TvInit

\* ---- JSON -> specification values ---------------------------------------
EntsOf(j) == [i \in 1..Len(j) |->
                [id |-> j[i].id, docs |-> j[i].docs, del |-> Range(j[i].del),
                 pers |-> j[i].pers, h |-> j[i].h]]
SnpEntsOf(j) == [i \in 1..Len(j) |-> [id |-> j[i].id, del |-> Range(j[i].del)]]
DocSet(j) == Range(j)

\* entries modulo handle numbers and persisted flag positions (for comparing
\* the specification's transition functions with the logged roots)

\* ---- clause bookkeeping ----------------------------------------------------
\* V(S) adds the clauses of S that are new; each is printed once with its line
Report(c) == PrintT(<<"VIOL", c, l, tv.run>>)
AddViol(S) == LET new == {c \in S : ~\E v \in viol : v[1] = c /\ v[3] = tv.run}
              IN viol \cup {<<c, l, tv.run>> : c \in {x \in new : Report(x)}}

\* state clauses, evaluated in the state reached by the event
TraceNoUseAfterClose ==
  /\ Up => \A h \in HsOf(root.ents) : h \in DOMAIN inst /\ inst[h].open
  /\ \A r \in Readers : rd[r].st = "open" =>
        \A h \in HsOf(rd[r].ents) : h \in DOMAIN inst /\ inst[h].open
\* an id only ever written through Update has at most one live document (no
\* exclusion for an id named twice in one batch: that is the known-finding probe)
UpdOnly(id) == \A u \in DOMAIN batchOf :
                  (\E k \in 1..Len(batchOf[u].add) : batchOf[u].add[k] = id) => id \in batchOf[u].del
TraceUpdateUnique == Up => \A id \in Ids : UpdOnly(id) => Cardinality({d \in Vis(root.ents) : d[1] = id}) <= 1
TraceHandles == \A h \in DOMAIN inst : inst[h].closes <= 1

\* The state clauses, grouped by the variables they depend on, so that an event only
\* re-evaluates the groups it can affect (evaluating everything after every event is
\* equivalent and 10-30 times slower on long histories).
ClauseFails(c) ==
     CASE c = "C01_RootIsAbstract" -> ~C01_RootIsAbstract
       [] c = "C01_SegIdsUnique" -> ~C01_SegIdsUnique
       [] c = "C01_UpdateUnique" -> ~TraceUpdateUnique
       [] c = "C02_AckedDurable" -> ~tv.mem /\ ~C02_AckedDurable
       [] c = "C03_DiskIsPrefix" -> ~tv.mem /\ ~C03_DiskIsPrefix
       [] c = "C03_EveryLoadableIsPrefix" -> ~tv.mem /\ ~C03_EveryLoadableIsPrefix
       [] c = "C03_Recoverable" -> ~tv.mem /\ ~C03_Recoverable
       [] c = "C04_NoUseAfterClose" -> ~tv.free /\ ~TraceNoUseAfterClose
       [] c = "C05_RealTime" -> ~C05_RealTime
       [] c = "C05_ReturnedApplied" -> ~C05_ReturnedApplied
       [] c = "C11_Retained" -> ~tv.mem /\ ~C11_Retained
       [] c = "C11_AtLeastN" -> ~tv.mem /\ ~C11_AtLeastN
       [] c = "C11_RootFiles" -> ~tv.mem /\ ~C11_RootFiles
       [] c = "C11_OpenHandlesHaveFiles" -> ~tv.mem /\ ~tv.free /\ ~C11_OpenHandlesHaveFiles
       [] c = "C11_HandlesClosedOnce" -> ~TraceHandles
       [] OTHER -> FALSE
GRoot == {"C01_RootIsAbstract", "C01_SegIdsUnique", "C01_UpdateUnique", "C05_RealTime", "C05_ReturnedApplied", "C11_RootFiles"}   \* root, applied, batchOf
GDisk == {"C02_AckedDurable", "C03_DiskIsPrefix", "C03_EveryLoadableIsPrefix", "C03_Recoverable", "C11_Retained", "C11_AtLeastN",
          "C11_RootFiles", "C11_OpenHandlesHaveFiles"}                                                                           \* files, policy, epochLen
GAck == {"C02_AckedDurable", "C05_ReturnedApplied"}                                                                              \* acked, cbAcked
GHandle == {"C04_NoUseAfterClose", "C11_OpenHandlesHaveFiles", "C11_HandlesClosedOnce"}                                           \* handles, readers
GAll == GRoot \cup GDisk \cup GAck \cup GHandle
Failing(G) == {c \in G : ClauseFails(c)}
StateClauses == Failing(GAll)

\* every event: advance, evaluate the state clauses in the new state
Step(name) == l <= N /\ Ev.ev = name /\ l' = l + 1
\* which groups an event can affect (anything not listed: all of them)
GroupOf(e) ==
  CASE e \in {"Invoke", "RootObs", "ReaderObs", "FReaderOpen", "FReaderObs", "PResult", "Reopened", "Stuck", "SecondOpen", "Recovered"} -> {}
    [] e \in {"Return", "Callback"} -> GAck
    [] e \in {"PersistBegin", "PersistEnd", "Commit"} -> GDisk
    [] e \in {"LoadEnd", "HandleClose", "ReaderOpen"} -> GHandle
    [] e = "RemoveEnd" -> GDisk \cup GHandle
    [] OTHER -> GAll
Judge(evClauses) == viol' = (AddViol(evClauses \cup {c \in GroupOf(Ev.ev) : ClauseFails(c)'}))

\* (a snapshot on disk can belong to a longer history than the one the writer recovered, when the writer wrongly
\*  came up with less: its length is then beyond the ghost history, and no abstract index corresponds to it)
MemoAbsPrefix(k) == IF k + 1 <= Len(tv.absq) THEN tv.absq[k + 1]
                    ELSE IF k <= Len(applied) THEN Abs(SubSeq(applied, 1, k))
                    ELSE {<<"beyond the recovered history", k, 0>>}

Ghosts == <<applied, epochLen, acked, cbAcked, batchOf, retBefore, errd>>
Unused == <<nextEpoch, nextSeg, nextUid, nextH, cl, pend, cbs, ps, mg, snaps>>

-----------------------------------------------------------------------------
\* events

\* a new run (fresh directory, fresh writer)
TReset ==
  /\ Step("Reset")
  /\ root' = NoSnap /\ nextEpoch' = 1 /\ nextSeg' = 1 /\ nextUid' = 1 /\ nextH' = 1
  /\ cl' = [c \in Clients |-> ClientInit] /\ pend' = {} /\ cbs' = {}
  /\ ps' = PsInit("wait") /\ mg' = MgInit /\ fsnp' = <<>> /\ fseg' = <<>>
  /\ pol' = [live |-> <<>>, deletable |-> {}, liveSegs |-> <<>>, known |-> {}]
  /\ snaps' = (0 :> [refs |-> 1, hs |-> {}]) /\ inst' = <<>>
  /\ rd' = [r \in Readers |-> RdInit]
  /\ life' = [LifeInit EXCEPT !.up = FALSE, !.lock = FALSE]
  /\ applied' = <<>> /\ epochLen' = (0 :> 0) /\ acked' = {} /\ cbAcked' = {} /\ batchOf' = <<>>
  /\ retBefore' = <<>> /\ errd' = {}
  /\ cnt' = [crashes |-> 0, merges |-> 0, faults |-> 0, ropens |-> 0, asyncErrs |-> 0, snapsDone |-> 0]
  /\ tv' = [TvInit EXCEPT !.run = Ev.run, !.mem = Ev.mem, !.free = Ev.free, !.noasync = (Has(Ev, "noasync") /\ Ev.noasync)]
  /\ viol' = viol

TReset0 == \* Reset is the first line: Init already holds
  /\ l = 1 /\ N >= 1 /\ TraceLog[1].ev = "Reset" /\ l' = 2
  /\ tv' = [TvInit EXCEPT !.run = TraceLog[1].run, !.mem = TraceLog[1].mem, !.free = TraceLog[1].free,
                         !.noasync = (Has(TraceLog[1], "noasync") /\ TraceLog[1].noasync)]
  /\ life' = [LifeInit EXCEPT !.up = FALSE, !.lock = FALSE]
  /\ UNCHANGED <<root, nextEpoch, nextSeg, nextUid, nextH, cl, pend, cbs, ps, mg, fsnp, fseg, pol, snaps, inst,
                 rd, applied, epochLen, acked, cbAcked, batchOf, retBefore, errd, cnt, viol>>

KeepAllBut(changed) == TRUE \* documentation only

\* events that carry no state for the property clauses
Ignored == {"ReaderClosed", "CleanupBegin", "CleanupEnd", "PProgress", "MProgress", "CloseStart",
            "Image", "Sched", "FReaderClose"}
TSkip ==
  /\ l <= N /\ Ev.ev \in Ignored /\ l' = l + 1
  /\ UNCHANGED <<vars, viol, tv>>

\* ---- conformance of the model's transition functions (not a verdict: reported as divergences) ----
NoH(ents) == [i \in 1..Len(ents) |-> [ents[i] EXCEPT !.h = 0]]
WithDocs(sd, ents) == [x \in DOMAIN sd \cup EntIds(ents) |-> IF x \in EntIds(ents) THEN EntOf(ents, x).docs ELSE sd[x]]
TPrepared ==
  /\ Step("Prepared")
  /\ tv' = [tv EXCEPT !.prep = Put(@, Ev.uid, Ev.rootSegs)]
  /\ UNCHANGED <<vars, viol>>
TPGrab ==
  /\ Step("PGrab")
  /\ tv' = [tv EXCEPT !.pgrab = IF Ev.epoch = 0 THEN @ ELSE root.ents, !.ploaded = IF Ev.epoch = 0 THEN @ ELSE {}]
  /\ UNCHANGED <<vars, viol>>
TMWake ==
  /\ Step("MWake")
  /\ tv' = [tv EXCEPT !.mwake = root.ents]
  /\ UNCHANGED <<vars, viol>>
TMergeTask ==
  /\ Step("MergeTask")
  /\ tv' = [tv EXCEPT !.mtask = Put(@, Ev.seg, [old |-> Ev.old, mem |-> Ev.mem])]
  /\ UNCHANGED <<vars, viol>>
\* what BlugeCore!AfterBatch computes for this introduction
ExpectBatch ==
  LET u == Ev.uid
      rs == IF u \in DOMAIN tv.prep THEN tv.prep[u] ELSE <<>>
      known == \A i \in DOMAIN rs : rs[i] \in DOMAIN tv.segdocs
      obs == [i \in DOMAIN rs |-> [id |-> rs[i], d |-> Match(tv.segdocs[rs[i]], batchOf[u].del)]]
  IN IF u \in DOMAIN batchOf /\ known THEN NoH(AfterBatch(root.ents, u, Ev.seg, obs)) ELSE NoH(EntsOf(Ev.ents))
\* what BlugeCore!MergedRoot computes for this merge introduction
ExpectMerge ==
  LET mt == tv.mtask[Ev.seg]
      snap == IF mt.mem THEN tv.pgrab ELSE tv.mwake
      ok == Ev.seg \in DOMAIN tv.mtask /\ \A k \in DOMAIN tv.mtask[Ev.seg].old : tv.mtask[Ev.seg].old[k] \in EntIds(snap)
      old == [k \in DOMAIN mt.old |-> EntOf(snap, mt.old[k])]
      mm == [id |-> Ev.seg, old |-> old, docs |-> MergedDocs(old), h |-> 0]
  IN IF Ev.seg \in DOMAIN tv.mtask /\ ok THEN MergedRoot(root.ents, mm) ELSE [ents |-> EntsOf(Ev.ents), skipped |-> Ev.skipped]

RecK == {k \in 0..Len(applied) : Vis(root.ents) = AbsPrefix(k)}
AckedPos == {PosOf(u) : u \in {x \in acked \cup cbAcked : IsApplied(x)}}
AckMax == IF AckedPos = {} THEN 0 ELSE Max(AckedPos)
LostAck == \E u \in acked \cup cbAcked : ~IsApplied(u)

TOpenReturn ==
  /\ Step("OpenReturn")
  /\ IF Ev.err = ""
     THEN \* the writer is up; after a recovery the ghost history is cut to the recovered prefix
          LET k == IF RecK = {} THEN Len(applied) ELSE Max(RecK)
          IN /\ applied' = SubSeq(applied, 1, k)
             /\ epochLen' = Put(epochLen, root.epoch, k)
             /\ life' = LifeInit
     ELSE /\ UNCHANGED <<applied, epochLen>>
          /\ life' = [life EXCEPT !.up = FALSE]
  /\ tv' = [tv EXCEPT !.opened = (Ev.err = ""),
                      !.absq = IF Ev.err = "" THEN SubSeq(@, 1, (IF RecK = {} THEN Len(applied) ELSE Max(RecK)) + 1) ELSE @]
  /\ UNCHANGED <<root, fsnp, fseg, pol, inst, rd, acked, cbAcked, batchOf, retBefore, errd, cnt>>
  /\ UNCHANGED Unused
  /\ Judge(IF Ev.err = ""
           THEN (IF RecK = {} THEN {"C03_recovered_not_prefix"} ELSE {})
                \cup (IF RecK # {} /\ Max(RecK) < AckMax THEN {"C02_acked_lost_by_recovery"} ELSE {})
           ELSE (IF cnt.snapsDone > 0 /\ ~tv.mem /\ ~tv.openfault THEN {"C03_open_failed"} ELSE {})
                \* OpenWriter gave up: it must not keep the directory lock (Lock seen, no Unlock)
                \cup (IF life.lock THEN {"C14_failed_open_keeps_the_lock", "C11_lock_not_released"} ELSE {}))

\* OpenWriter starts: a new (empty) deletion policy, the initial empty root
TOpenCall ==
  /\ Step("OpenCall")
  /\ pol' = [live |-> <<>>, deletable |-> {}, liveSegs |-> <<>>, known |-> {}]
  /\ root' = NoSnap
  /\ tv' = [tv EXCEPT !.openfault = FALSE]
  /\ UNCHANGED <<fsnp, fseg, inst, rd, life, cnt, viol>> /\ UNCHANGED Ghosts /\ UNCHANGED Unused

TInvoke ==
  /\ Step("Invoke")
  /\ batchOf' = Put(batchOf, Ev.uid, [del |-> Range(Ev.del), add |-> Ev.add])
  /\ retBefore' = Put(retBefore, Ev.uid, tv.returned)
  /\ tv' = [tv EXCEPT !.cbwant = IF Ev.cb THEN @ \cup {Ev.uid} ELSE @]
  /\ UNCHANGED <<root, fsnp, fseg, pol, inst, rd, life, applied, epochLen, acked, cbAcked, errd, cnt>>
  /\ UNCHANGED Unused
  /\ Judge({})

\* introduceSegment + replaceRoot, logged under rootLock
TIntroBatch ==
  /\ Step("IntroBatch")
  /\ root' = [epoch |-> Ev.epoch, ents |-> EntsOf(Ev.ents)]
  /\ applied' = Append(applied, Ev.uid)
  /\ epochLen' = Put(epochLen, Ev.epoch, Len(applied) + 1)
  /\ tv' = [tv EXCEPT !.segdocs = WithDocs(@, EntsOf(Ev.ents)),
                      !.absq = Append(@, IF Ev.uid \in DOMAIN batchOf THEN AbsStep(@[Len(@)], Ev.uid) ELSE @[Len(@)])]
  /\ UNCHANGED <<fsnp, fseg, pol, inst, rd, life, acked, cbAcked, batchOf, retBefore, errd, cnt>>
  /\ UNCHANGED Unused
  /\ Judge((IF Ev.uid \notin DOMAIN batchOf THEN {"C05_introduced_before_invoked"} ELSE {})
           \cup (IF Ev.epoch <= root.epoch THEN {"C05_epoch_not_increasing"} ELSE {})
           \cup (IF ExpectBatch # NoH(EntsOf(Ev.ents)) THEN {"STRICT_batch_root_differs_from_model"} ELSE {}))

\* introduceMerge / introducePersist: the visible documents must not change
TIntroMerge ==
  /\ Step("IntroMerge")
  /\ root' = [epoch |-> Ev.epoch, ents |-> EntsOf(Ev.ents)]
  /\ epochLen' = Put(epochLen, Ev.epoch, Len(applied))
  /\ tv' = [tv EXCEPT !.segdocs = WithDocs(@, EntsOf(Ev.ents))]
  /\ UNCHANGED <<fsnp, fseg, pol, inst, rd, life, applied, acked, cbAcked, batchOf, retBefore, errd, cnt>>
  /\ UNCHANGED Unused
  /\ Judge((IF Vis(EntsOf(Ev.ents)) # Vis(root.ents) THEN {"C06_merge_changed_content"} ELSE {})
           \cup (IF Ev.epoch <= root.epoch THEN {"C05_epoch_not_increasing"} ELSE {})
           \cup (IF NoH(ExpectMerge.ents) # NoH(EntsOf(Ev.ents)) THEN {"STRICT_merge_root_differs_from_model"} ELSE {})
           \cup (IF ExpectMerge.skipped # Ev.skipped THEN {"STRICT_merge_skip_differs_from_model"} ELSE {}))
TIntroPersist ==
  /\ Step("IntroPersist")
  /\ root' = [epoch |-> Ev.epoch, ents |-> EntsOf(Ev.ents)]
  /\ epochLen' = Put(epochLen, Ev.epoch, Len(applied))
  /\ tv' = [tv EXCEPT !.segdocs = WithDocs(@, EntsOf(Ev.ents))]
  /\ UNCHANGED <<fsnp, fseg, pol, inst, rd, life, applied, acked, cbAcked, batchOf, retBefore, errd, cnt>>
  /\ UNCHANGED Unused
  /\ Judge((IF Vis(EntsOf(Ev.ents)) # Vis(root.ents) THEN {"C06_swap_changed_content"} ELSE {})
           \cup (IF Ev.epoch <= root.epoch THEN {"C05_epoch_not_increasing"} ELSE {})
           \cup (IF NoH(SwapRoot(root.ents, [x \in tv.ploaded |-> 0])) # NoH(EntsOf(Ev.ents))
                 THEN {"STRICT_swap_root_differs_from_model"} ELSE {}))

\* loadSnapshots at open: each loadable snapshot becomes the root
TRootLoad ==
  /\ Step("RootLoad")
  /\ root' = [epoch |-> Ev.epoch, ents |-> EntsOf(Ev.ents)]
  /\ viol' = viol
  /\ tv' = [tv EXCEPT !.segdocs = WithDocs(@, EntsOf(Ev.ents))]
  /\ UNCHANGED <<fsnp, fseg, pol, inst, rd, life, cnt>> /\ UNCHANGED Ghosts /\ UNCHANGED Unused

TRootNil ==
  /\ Step("RootNil")
  /\ root' = NoSnap
  /\ life' = [life EXCEPT !.up = FALSE]
  /\ viol' = viol
  /\ UNCHANGED <<fsnp, fseg, pol, inst, rd, cnt, tv>> /\ UNCHANGED Ghosts /\ UNCHANGED Unused

TReturn ==
  /\ Step("Return")
  /\ acked' = IF Ev.err = "" /\ Ev.safe THEN acked \cup {Ev.uid} ELSE acked
  /\ errd' = IF Ev.err # "" THEN errd \cup {Ev.uid} ELSE errd
  /\ tv' = [tv EXCEPT !.returned = @ \cup {Ev.uid}]
  /\ UNCHANGED <<root, fsnp, fseg, pol, inst, rd, life, applied, epochLen, cbAcked, batchOf, retBefore, cnt>>
  /\ UNCHANGED Unused
  /\ Judge(IF Ev.err = "" /\ ~IsApplied(Ev.uid) THEN {"C05_returned_before_applied"} ELSE {})

TCallback ==
  /\ Step("Callback")
  /\ cbAcked' = IF Ev.err = "" THEN cbAcked \cup {Ev.uid} ELSE cbAcked
  /\ errd' = IF Ev.err # "" THEN errd \cup {Ev.uid} ELSE errd
  /\ UNCHANGED <<root, fsnp, fseg, pol, inst, rd, life, applied, epochLen, acked, batchOf, retBefore, cnt, tv>>
  /\ UNCHANGED Unused
  /\ Judge({})

\* ---- directory -------------------------------------------------------------
\* while a Persist is in flight the file may be torn (a crash now leaves any prefix)
TPersistBegin ==
  /\ Step("PersistBegin")
  /\ IF Ev.kind = ".snp"
     THEN /\ fsnp' = Put(fsnp, Ev.id, [st |-> "torn", size |-> 0, ents |-> <<>>]) /\ fseg' = fseg
     ELSE /\ fseg' = Put(fseg, Ev.id, [st |-> "torn", size |-> 0, docs |-> <<>>]) /\ fsnp' = fsnp
  /\ UNCHANGED <<root, pol, inst, rd, life, cnt, tv>> /\ UNCHANGED Ghosts /\ UNCHANGED Unused
  /\ Judge({})

TPersistEnd ==
  /\ Step("PersistEnd")
  /\ IF Ev.err = ""
     THEN IF Ev.kind = ".snp"
          THEN /\ fsnp' = Put(fsnp, Ev.id, [st |-> IF Has(Ev, "parse") THEN "torn" ELSE "ok", size |-> Ev.size,
                                           ents |-> IF Has(Ev, "parse") THEN <<>> ELSE SnpEntsOf(Ev.ents)])
               /\ fseg' = fseg
               /\ cnt' = [cnt EXCEPT !.snapsDone = 1]
          ELSE /\ fseg' = Put(fseg, Ev.id, [st |-> IF Has(Ev, "parse") THEN "torn" ELSE "ok", size |-> Ev.size,
                                           docs |-> IF Has(Ev, "parse") THEN <<>> ELSE Ev.docs])
               /\ fsnp' = fsnp /\ cnt' = cnt
     ELSE \* a failed Persist removes the item (FileSystemDirectory.Persist cleanup); a failure injected before the
          \* directory was called changes nothing; `left` is the size of what the wrapper found under the item's name
          \* after the directory reported the failure (-1: nothing) -- anything there is a torn item
          /\ IF Has(Ev, "stage") /\ Ev.stage = "before" THEN fsnp' = fsnp /\ fseg' = fseg
             ELSE IF Has(Ev, "left") /\ Ev.left >= 0
             THEN IF Ev.kind = ".snp"
                  THEN fsnp' = Put(fsnp, Ev.id, [st |-> "torn", size |-> Ev.left, ents |-> <<>>]) /\ fseg' = fseg
                  ELSE fseg' = Put(fseg, Ev.id, [st |-> "torn", size |-> Ev.left, docs |-> <<>>]) /\ fsnp' = fsnp
             ELSE IF Ev.kind = ".snp"
             THEN fsnp' = Restrict(fsnp, DOMAIN fsnp \ {Ev.id}) /\ fseg' = fseg
             ELSE fseg' = Restrict(fseg, DOMAIN fseg \ {Ev.id}) /\ fsnp' = fsnp
          /\ cnt' = cnt
  /\ tv' = [tv EXCEPT !.ploaded = IF Ev.err = "" /\ Ev.kind = ".seg" /\ Ev.proc = "pers" THEN @ \cup {Ev.id} ELSE @]
  /\ UNCHANGED <<root, pol, inst, rd, life>> /\ UNCHANGED Ghosts /\ UNCHANGED Unused
  /\ Judge((IF Ev.err = "" /\ Has(Ev, "parse") THEN {"C13_persisted_item_unreadable"} ELSE {})
           \cup (IF Ev.err # "" /\ Has(Ev, "left") /\ Ev.left >= 0 THEN {"C14_failed_persist_left_a_file", "C13_failure_left_a_file"} ELSE {}))

TLoadEnd ==
  /\ Step("LoadEnd")
  /\ inst' = IF Ev.err = "" /\ Ev.kind = ".seg" THEN NewInst(inst, Ev.h, Ev.id) ELSE inst
  /\ tv' = [tv EXCEPT !.openfault = @ \/ (Ev.err = "injected" /\ ~life.up)]
  /\ UNCHANGED <<root, fsnp, fseg, pol, rd, life, cnt>> /\ UNCHANGED Ghosts /\ UNCHANGED Unused
  /\ Judge({})

TListEnd ==
  /\ Step("ListEnd")
  /\ tv' = [tv EXCEPT !.openfault = @ \/ (Ev.err = "injected" /\ ~life.up)]
  /\ viol' = viol
  /\ UNCHANGED <<root, fsnp, fseg, pol, inst, rd, life, cnt>> /\ UNCHANGED Ghosts /\ UNCHANGED Unused

THandleClose ==
  /\ Step("HandleClose")
  /\ inst' = IF Ev.kind = ".seg" /\ Ev.h \in DOMAIN inst
             THEN [inst EXCEPT ![Ev.h].open = FALSE, ![Ev.h].closes = @ + 1] ELSE inst
  /\ UNCHANGED <<root, fsnp, fseg, pol, rd, life, cnt, tv>> /\ UNCHANGED Ghosts /\ UNCHANGED Unused
  /\ Judge(IF Ev.n > 1 THEN {"C11_handle_closed_twice"} ELSE {})

TCommit ==
  /\ Step("Commit")
  /\ pol' = PolicyCommit(pol, Ev.epoch, Range(Ev.segs))
  /\ UNCHANGED <<root, fsnp, fseg, inst, rd, life, cnt, tv>> /\ UNCHANGED Ghosts /\ UNCHANGED Unused
  /\ Judge(IF ~tv.mem /\ ~Loadable(Ev.epoch) THEN {"C02_commit_before_durable"} ELSE {})

TRemoveEnd ==
  /\ Step("RemoveEnd")
  /\ IF Ev.err = ""
     THEN IF Ev.kind = ".snp"
          THEN /\ fsnp' = Restrict(fsnp, DOMAIN fsnp \ {Ev.id}) /\ fseg' = fseg
               /\ pol' = [pol EXCEPT !.deletable = @ \ {Ev.id},
                                     !.liveSegs = Restrict(@, DOMAIN @ \ {Ev.id})]
          ELSE /\ fseg' = Restrict(fseg, DOMAIN fseg \ {Ev.id}) /\ fsnp' = fsnp
               /\ pol' = [pol EXCEPT !.known = @ \ {Ev.id}]
     ELSE UNCHANGED <<fsnp, fseg, pol>>
  /\ UNCHANGED <<root, inst, rd, life, cnt, tv>> /\ UNCHANGED Ghosts /\ UNCHANGED Unused
  /\ Judge(IF Ev.err # "" \/ tv.mem THEN {}   \* (the in-memory directory has no file locks; its buffers stay referenced)
           ELSE IF Ev.kind = ".snp"
                THEN (IF \E i \in 1..Len(pol.live) : pol.live[i] = Ev.id THEN {"C11_retained_snapshot_removed"} ELSE {})
                ELSE (IF InUse(Ev.id) /\ ~tv.free THEN {"C11_removed_file_in_use"} ELSE {})
                     \cup (IF Needed(Ev.id) THEN {"C11_removed_needed_segment"} ELSE {}))

\* ---- readers ---------------------------------------------------------------
\* the dictionary of the identifier field lists every live id (it may also list ids whose documents are
\* only marked deleted, and its per-term counts are physical: after a merge the bundled segment format
\* reports 1 for an id that two live documents carry -- neither is promised by a listed property)
DictOK(o, abs) == o.err # "" \/ ~Has(o, "dict") \/
   \A id \in {d[1] : d \in abs} : \E i \in 1..Len(o.dict) : o.dict[i].t = id
ObsOK(o) == o.err = "" /\ o.count = Len(o.docs) /\ DocSet(o.docs) = DocSet(o.byid)
                      /\ DocSet(o.sorted) = DocSet(o.docs) /\ Len(o.sorted) = Len(o.docs)
                      \* the same search with scoring switched off, and its count aggregation
                      /\ (Has(o, "none") => DocSet(o.none) = DocSet(o.docs) /\ Len(o.none) = Len(o.docs) /\ o.agg = o.count)
TReaderOpen ==
  /\ Step("ReaderOpen")
  /\ rd' = [rd EXCEPT ![Ev.r] = [st |-> "open", epoch |-> root.epoch, ents |-> root.ents, n |-> Len(applied)]]
  /\ tv' = [tv EXCEPT !.robs = Put(tv.robs, Ev.r, Ev.obs)]
  /\ UNCHANGED <<root, fsnp, fseg, pol, inst, life, cnt>> /\ UNCHANGED Ghosts /\ UNCHANGED Unused
  /\ Judge((IF DocSet(Ev.obs.docs) # AbsPrefix(Len(applied)) \/ Cardinality(AbsPrefix(Len(applied))) # Ev.obs.count
            THEN {"C01_reader_differs_from_abstract_index"} ELSE {})
           \cup (IF ~ObsOK(Ev.obs) THEN {"C01_reader_views_disagree"} ELSE {})
           \cup (IF ~DictOK(Ev.obs, AbsPrefix(Len(applied))) THEN {"C01_dictionary_misses_live_document"} ELSE {}))

\* a fresh reader obtained by the controller right after a root replacement
TRootObs ==
  /\ Step("RootObs")
  /\ UNCHANGED <<root, fsnp, fseg, pol, inst, rd, life, cnt, tv>> /\ UNCHANGED Ghosts /\ UNCHANGED Unused
  /\ Judge((IF DocSet(Ev.obs.docs) # AbsPrefix(Len(applied)) \/ Cardinality(AbsPrefix(Len(applied))) # Ev.obs.count
            THEN {"C01_reader_differs_from_abstract_index"} ELSE {})
           \cup (IF ~ObsOK(Ev.obs) THEN {"C01_reader_views_disagree"} ELSE {})
           \cup (IF ~DictOK(Ev.obs, AbsPrefix(Len(applied))) THEN {"C01_dictionary_misses_live_document"} ELSE {}))

TReaderObs ==
  /\ Step("ReaderObs")
  /\ UNCHANGED <<root, fsnp, fseg, pol, inst, rd, life, cnt, tv>> /\ UNCHANGED Ghosts /\ UNCHANGED Unused
  /\ Judge(IF Ev.obs # tv.robs[Ev.r] THEN {"C04_reader_changed"} ELSE {})

TReaderClose ==
  /\ Step("ReaderClose")
  /\ rd' = [rd EXCEPT ![Ev.r] = RdInit]
  /\ viol' = viol
  /\ UNCHANGED <<root, fsnp, fseg, pol, inst, life, cnt, tv>> /\ UNCHANGED Ghosts /\ UNCHANGED Unused

\* ---- readers of free-running executions (real parallelism, no gates) ----------------
\* The reader goroutine logs FReaderCall, calls Writer.Reader(), observes, logs FReaderOpen.  The
\* root it got was installed (and its IntroBatch logged, under rootLock) before it could be read,
\* so its content must be the abstract index after k batches with
\*   (batches that had returned before the call) <= k <= (batches introduced when FReaderOpen is logged).
\* Then several goroutines search the SAME reader concurrently (FReaderObs): identical answers.
TFReaderCall ==
  /\ Step("FReaderCall")
  /\ tv' = [tv EXCEPT !.fcall = Put(@, Ev.r, tv.returned)]
  /\ viol' = viol
  /\ UNCHANGED <<root, fsnp, fseg, pol, inst, rd, life, cnt>> /\ UNCHANGED Ghosts /\ UNCHANGED Unused

TFReaderOpen ==
  /\ Step("FReaderOpen")
  /\ tv' = [tv EXCEPT !.fobs = Put(@, Ev.r, Ev.obs)]
  /\ UNCHANGED <<root, fsnp, fseg, pol, inst, rd, life, cnt>> /\ UNCHANGED Ghosts /\ UNCHANGED Unused
  /\ LET before == {PosOf(u) : u \in {x \in tv.fcall[Ev.r] : IsApplied(x)}}
         lo == IF before = {} THEN 0 ELSE Max(before)
     IN Judge((IF Ev.obs.err # "" THEN {"C15_concurrent_reader_failed"} ELSE {})
              \cup (IF Ev.obs.err = "" /\ ~\E k \in 0..Len(applied) : DocSet(Ev.obs.docs) = AbsPrefix(k)
                    THEN {"C05_reader_not_a_prefix"} ELSE {})
              \cup (IF Ev.obs.err = "" /\ (\E k \in 0..Len(applied) : DocSet(Ev.obs.docs) = AbsPrefix(k))
                       /\ ~\E k \in lo..Len(applied) : DocSet(Ev.obs.docs) = AbsPrefix(k)
                    THEN {"C05_reader_misses_returned_batch"} ELSE {})
              \cup (IF ~ObsOK(Ev.obs) THEN {"C01_reader_views_disagree"} ELSE {}))

TFReaderObs ==
  /\ Step("FReaderObs")
  /\ UNCHANGED <<root, fsnp, fseg, pol, inst, rd, life, cnt, tv>> /\ UNCHANGED Ghosts /\ UNCHANGED Unused
  /\ Judge(IF Ev.obs # tv.fobs[Ev.r] THEN {"C04_reader_changed", "C15_concurrent_searches_disagree"} ELSE {})

\* two goroutines inside the deletion policy at once (the bundled policy is unsynchronised maps and slices and has
\* a single caller, the persister): a note, not a verdict -- a data race is not decided by this specification
TPolicyOverlap ==
  /\ Step("PolicyOverlap")
  /\ UNCHANGED <<root, fsnp, fseg, pol, inst, rd, life, cnt, tv>> /\ UNCHANGED Ghosts /\ UNCHANGED Unused
  /\ viol' = AddViol({"NOTE_deletion_policy_entered_by_two_goroutines"})

\* ---- faults, close, second writer -----------------------------------------------
TAsyncError ==
  /\ Step("AsyncError")
  /\ cnt' = [cnt EXCEPT !.asyncErrs = @ + 1]
  /\ viol' = viol
  /\ UNCHANGED <<root, fsnp, fseg, pol, inst, rd, life, tv>> /\ UNCHANGED Ghosts /\ UNCHANGED Unused

\* the persister finished one round: success => everything applied up to the
\* grabbed epoch is durable (also batches whose own call got an error)
TPResult ==
  /\ Step("PResult")
  /\ UNCHANGED <<root, fsnp, fseg, pol, inst, rd, life, cnt, tv>> /\ UNCHANGED Ghosts /\ UNCHANGED Unused
  /\ Judge(IF Ev.err = "" /\ ~tv.mem /\ Ev.epoch \in DOMAIN epochLen
              /\ \E i \in 1..epochLen[Ev.epoch] : ~Durable(applied[i])
           THEN {"C14_success_does_not_cover_applied"} ELSE {})

TCloseCall ==
  /\ Step("CloseCall")
  /\ life' = [life EXCEPT !.closing = TRUE]
  /\ viol' = viol
  /\ UNCHANGED <<root, fsnp, fseg, pol, inst, rd, cnt, tv>> /\ UNCHANGED Ghosts /\ UNCHANGED Unused

\* the directory lock of the writer under test (Dir.Lock / Dir.Unlock of the logging wrapper)
TLock ==
  /\ Step("Lock")
  /\ life' = [life EXCEPT !.lock = IF Ev.err = "" THEN TRUE ELSE @]
  /\ viol' = viol
  /\ UNCHANGED <<root, fsnp, fseg, pol, inst, rd, cnt, tv>> /\ UNCHANGED Ghosts /\ UNCHANGED Unused

TUnlock ==
  /\ Step("Unlock")
  /\ life' = [life EXCEPT !.lock = FALSE]
  /\ viol' = viol
  /\ UNCHANGED <<root, fsnp, fseg, pol, inst, rd, cnt, tv>> /\ UNCHANGED Ghosts /\ UNCHANGED Unused

TCloseReturn ==
  /\ Step("CloseReturn")
  /\ life' = [life EXCEPT !.up = FALSE, !.closed = TRUE, !.closing = FALSE]
  /\ UNCHANGED <<root, fsnp, fseg, pol, inst, rd, cnt, tv>> /\ UNCHANGED Ghosts /\ UNCHANGED Unused
  /\ Judge((IF life.lock THEN {"C11_lock_not_released"} ELSE {})
           \cup (IF (\A r \in Readers : rd[r].st = "closed") /\ (\E h \in DOMAIN inst : inst[h].open)
                 THEN {"C11_handle_leaked"} ELSE {})
           \cup (IF errd # {} /\ cnt.asyncErrs = 0 /\ ~tv.noasync THEN {"C14_error_not_surfaced"} ELSE {})
           \* every batch that became durable had its persisted-callback invoked (callbacks of failed
           \* rounds are parked and must be delivered by the next successful round)
           \cup (IF ~tv.mem /\ \E u \in tv.cbwant : Durable(u) /\ u \notin cbAcked
                 THEN {"C14_callback_of_durable_batch_never_invoked"} ELSE {})
           \cup (IF ~tv.mem /\ ~(\A u \in acked \cup cbAcked : Durable(u)) THEN {"C15_close_lost_acked"} ELSE {})
           \cup (IF Len(tv.absq) # Len(applied) + 1 \/ tv.absq[Len(tv.absq)] # Abs(applied) THEN {"DIV_absq_memo"} ELSE {}))

\* a reopen immediately after Close (lock must be free; content covers everything acknowledged)
TReopened ==
  /\ Step("Reopened")
  /\ UNCHANGED <<root, fsnp, fseg, pol, inst, rd, life, cnt, tv>> /\ UNCHANGED Ghosts /\ UNCHANGED Unused
  /\ Judge((IF Ev.err # "" /\ (cnt.snapsDone > 0 \/ Ev.mode = "writer") THEN {"C11_reopen_after_close_failed"} ELSE {})
           \cup (IF Ev.err = "" /\ ~tv.mem /\
                    ~\E k \in 0..Len(applied) : DocSet(Ev.docs) = AbsPrefix(k) /\ k >= AckMax
                 THEN {"C15_reopen_lost_acked"} ELSE {})
           \cup (IF LostAck THEN {"C15_reopen_lost_acked"} ELSE {})
           \* the reopened index through the public API: a prefix of the history, all views agreeing
           \* (global document numbers are rebuilt from the snapshot file at open)
           \cup (IF Ev.err = "" /\ ~tv.mem /\ ~\E k \in 0..Len(applied) : DocSet(Ev.docs) = AbsPrefix(k)
                 THEN {"C01_reopened_index_not_a_prefix"} ELSE {})
           \cup (IF Ev.err = "" /\ Has(Ev, "obs") /\ ~ObsOK(Ev.obs) THEN {"C01_reopened_views_disagree"} ELSE {}))

TStuck ==
  /\ Step("Stuck")
  /\ UNCHANGED <<root, fsnp, fseg, pol, inst, rd, life, cnt, tv>> /\ UNCHANGED Ghosts /\ UNCHANGED Unused
  /\ Judge({"C15_stuck"})

TSecondOpen ==
  /\ Step("SecondOpen")
  /\ UNCHANGED <<root, fsnp, fseg, pol, inst, rd, life, cnt, tv>> /\ UNCHANGED Ghosts /\ UNCHANGED Unused
  /\ Judge(IF life.lock /\ ~Ev.refused THEN {"C11_second_writer_admitted"} ELSE {})

\* ---- crash images really reopened ---------------------------------------------------
\* placed at the position of the trace at which the image was taken
TRecovered ==
  /\ Step("Recovered")
  /\ UNCHANGED <<root, fsnp, fseg, pol, inst, rd, life, cnt, tv>> /\ UNCHANGED Ghosts /\ UNCHANGED Unused
  /\ LET ks == {k \in 0..Len(applied) : DocSet(Ev.docs) = AbsPrefix(k)}
     IN Judge((IF Ev.died THEN {"C03_recovery_crashed_the_process"} ELSE {})
              \cup (IF ~Ev.died /\ Ev.err # "" /\ cnt.snapsDone > 0 THEN {"C03_recovery_failed"} ELSE {})
              \cup (IF ~Ev.died /\ Ev.err = "" /\ ks = {} THEN {"C03_recovered_not_prefix"} ELSE {})
              \cup (IF ~Ev.died /\ Ev.err = "" /\ AckMax > 0 /\ ~\E k \in ks : k >= AckMax THEN {"C02_acked_lost"} ELSE {})
              \cup (IF ~Ev.died /\ Ev.err = "" /\ Has(Ev, "docs2") /\
                       DocSet(Ev.docs2) # DocSet(Ev.docs) \cup {<<"zz", 9999, 1>>}
                    THEN {"C03_recovered_writer_rejects_batches"} ELSE {}))

\* the process dies here (the rest of the run is dropped, a later incarnation follows)
TCrash ==
  /\ Step("Crash")
  /\ life' = [life EXCEPT !.up = FALSE, !.lock = FALSE, !.closing = FALSE]
  /\ inst' = <<>>
  /\ rd' = [r \in Readers |-> RdInit]
  /\ viol' = viol
  /\ tv' = [tv EXCEPT !.robs = <<>>]
  /\ UNCHANGED <<root, fsnp, fseg, pol, cnt>> /\ UNCHANGED Ghosts /\ UNCHANGED Unused

TraceNext ==
  \/ TReset0 \/ TReset \/ TSkip \/ TPrepared \/ TPGrab \/ TMWake \/ TMergeTask \/ TOpenReturn \/ TOpenCall \/ TInvoke \/ TIntroBatch \/ TIntroMerge \/ TIntroPersist
  \/ TRootLoad \/ TRootNil \/ TReturn \/ TCallback \/ TPersistBegin \/ TPersistEnd \/ TLoadEnd \/ TListEnd \/ THandleClose
  \/ TCommit \/ TRemoveEnd \/ TReaderOpen \/ TRootObs \/ TReaderObs \/ TReaderClose \/ TAsyncError \/ TPResult
  \/ TFReaderCall \/ TFReaderOpen \/ TFReaderObs \/ TPolicyOverlap
  \/ TCloseCall \/ TLock \/ TUnlock \/ TCloseReturn \/ TReopened \/ TStuck \/ TSecondOpen \/ TRecovered \/ TCrash

TraceSpec == TraceInit /\ [][TraceNext]_tvars

\* acceptance: every line of the trace was consumed
TraceAccepted ==
  /\ IF TLCGet("stats").diameter - 1 = N THEN TRUE
     ELSE Print(<<"TRACE-NOT-CONSUMED", TLCGet("stats").diameter - 1, N>>, FALSE)
  /\ PrintT(<<"TRACE-DONE", N>>)
=============================================================================
