----------------------------- MODULE LayoutTrace -----------------------------
(***************************************************************************)
(* corpus{c}                  the abstract corpus (one logical segment)    *)
(* ans{recipe, scn, qi, q, ids, order, count, sum, scores, cmp, stored}    *)
(*     the answers one real build gave to query number qi                  *)
(***************************************************************************)
EXTENDS Layout, Json

CONSTANT TraceFile
VARIABLES l, viol, C, sc, nq
tvars == <<l, viol, C, sc, nq>>
TraceLog == ndJsonDeserialize(TraceFile)
N == Len(TraceLog)
Ev == TraceLog[l]
Report(c) == PrintT(<<"VIOL", c, l, nq>>)
AddViol(X) == viol \cup {<<c, l>> : c \in {x \in X : Report(x)}}
TInit == l = 1 /\ viol = {} /\ C = [segs |-> <<>>] /\ sc = <<>> /\ nq = 0
Step(name) == l <= N /\ Ev.ev = name /\ l' = l + 1
Put(f, k, v) == [x \in DOMAIN f \cup {k} |-> IF x = k THEN v ELSE f[x]]

TCorpus == /\ Step("corpus") /\ C' = Ev.c /\ sc' = <<>> /\ nq' = nq + 1 /\ viol' = viol

TAns ==
  /\ Step("ans")
  /\ LET want == S!Eval(C, Ev.q)
         got == S!Range(Ev.ids)
         known == Ev.qi \in DOMAIN sc
     IN /\ viol' = AddViol(
              IF Ev.err # "" THEN {"C08_build_or_search_failed"}
              ELSE (IF got # want \/ Len(Ev.ids) # Cardinality(got) THEN {"C08_match_set_depends_on_layout"} ELSE {})
                   \cup (IF got = want /\ Ev.order # Ranked(C, want) THEN {"C08_field_sort_order_depends_on_layout"} ELSE {})
                   \cup (IF Ev.count # Cardinality(want) THEN {"C08_count_aggregation_depends_on_layout"} ELSE {})
                   \cup (IF got = want /\ Ev.sum # SumN1(C, want) THEN {"C08_sum_aggregation_depends_on_layout"} ELSE {})
                   \cup (IF ~Ev.stored THEN {"C08_stored_fields_depend_on_layout"} ELSE {})
                   \* scores: the first comparable build fixes the value, every later one must repeat it bit for bit
                   \cup (IF Ev.cmp /\ known /\ sc[Ev.qi] # Ev.scores THEN {"C08_scores_differ_between_builds"} ELSE {})
                   \cup (IF ~Ev.cmp /\ Ev.merged /\ known /\ sc[Ev.qi] # Ev.scores THEN {"C08_scores_differ_after_merge"} ELSE {}))
        /\ sc' = IF Ev.err = "" /\ Ev.cmp /\ ~known THEN Put(sc, Ev.qi, Ev.scores) ELSE sc
  /\ UNCHANGED <<C, nq>>

TraceSpec == TInit /\ [][TCorpus \/ TAns]_tvars
TraceAccepted ==
  /\ IF TLCGet("stats").diameter - 1 = N THEN TRUE
     ELSE Print(<<"TRACE-NOT-CONSUMED", TLCGet("stats").diameter - 1, N>>, FALSE)
  /\ PrintT(<<"TRACE-DONE", N>>)
=============================================================================
