SPECIFICATION Spec
CONSTANTS
  MaxHits = 6
  KeyVals = {1, 2, 1000000}
  MaxN = 4
  MaxFrom = 2
INVARIANTS Refines StoreBounded
CHECK_DEADLOCK FALSE
