------------------------------ MODULE SearchMC ------------------------------
(* Sanity of the oracle itself: boolean identities of Search!Eval over all   *)
(* corpora of 3 documents in 2 segments (one pending deletion or none) with  *)
(* every subset of two terms, and all pairs of leaf queries.                 *)
EXTENDS Search
VARIABLES c, a, b
Terms2 == {<<1>>, <<2>>}
DocOf(id, S) == [id |-> id, t |-> [f1 |-> IF S = {} THEN <<>> ELSE IF S = {<<1>>} THEN <<<<1>>>> ELSE IF S = {<<2>>} THEN <<<<2>>>> ELSE <<<<1>>, <<2>>>>],
                 n |-> <<>>, d |-> <<>>]
Leaves == {[t |-> "term", f |-> "f1", v |-> <<1>>], [t |-> "term", f |-> "f1", v |-> <<2>>], [t |-> "all"], [t |-> "none"],
           [t |-> "bool", must |-> <<[t |-> "term", f |-> "f1", v |-> <<1>>]>>, nots |-> <<[t |-> "term", f |-> "f1", v |-> <<2>>]>>, min |-> 0]}
Init == /\ \E s1, s2, s3 \in SUBSET Terms2 : \E del \in 0..2 :
              c = [segs |-> <<[docs |-> <<DocOf(1, s1), DocOf(2, s2)>>, del |-> IF del = 0 THEN <<>> ELSE <<del>>],
                              [docs |-> <<DocOf(3, s3)>>, del |-> <<>>]>>]
        /\ a \in Leaves /\ b \in Leaves
Next == UNCHANGED <<c, a, b>>
Spec == Init /\ [][Next]_<<c, a, b>>
Identities == BoolIdentities(c, a, b)
NoDeleted == \A q \in {a, b} : Eval(c, q) \subseteq AllIds(c)
=============================================================================
