------------------------------ MODULE DirFSTrace ------------------------------
(***************************************************************************)
(* Validates system-call records (strace) of the REAL                      *)
(* FileSystemDirectory.Persist against the file-system semantics of        *)
(* DirFS.tla and evaluates the C13 clauses when Persist returns.           *)
(* Events (ndjson, produced by bin/strace2trace from strace output plus    *)
(* marker calls of the probe):                                             *)
(*   call{size, pre, held}      Persist is about to be called; pre = length *)
(*                              of the existing file or -1; held = a Load  *)
(*                              of that file is still open (shared lock)   *)
(*   open{p, creat, trunc, fd}  openat on path p ("item" or a temp name)   *)
(*   ftruncate{fd, len}  write{fd, n}  pwrite{fd, n, off}  fsync{fd}       *)
(*   close{fd}  unlink{p}  rename{from, to}                                *)
(*   ret{err}                   Persist returned                           *)
(*   after{exists, size, equal} what the probe then read from the file     *)
(***************************************************************************)
EXTENDS Integers, Sequences, FiniteSets, TLC, Json

CONSTANT TraceFile
VARIABLES files,   \* path -> [exists, len, good]   (cache view)
          disks,   \* path -> same (what survives power loss)
          fds,     \* fd -> [p, off, synced]
          size,    \* size of the item of the current call
          held,    \* length of the pre-existing file when a Load still holds it, else -1
          l, viol, calls

TraceLog == ndJsonDeserialize(TraceFile)
N == Len(TraceLog)
Ev == TraceLog[l]
vars == <<files, disks, fds, size, held, l, viol, calls>>

NoFile == [exists |-> FALSE, len |-> 0, good |-> 0]
Max2(a, b) == IF a > b THEN a ELSE b
Min2(a, b) == IF a < b THEN a ELSE b
Put(fn, k, v) == [x \in DOMAIN fn \cup {k} |-> IF x = k THEN v ELSE fn[x]]
Get(fn, k) == IF k \in DOMAIN fn THEN fn[k] ELSE NoFile
Exact(F, sz) == F.exists /\ F.len = sz /\ F.good = sz

Report(c) == PrintT(<<"VIOL", c, l, calls>>)
AddViol(S) == viol \cup {<<c, l>> : c \in {x \in S : Report(x)}}

Init == files = <<>> /\ disks = <<>> /\ fds = <<>> /\ size = 0 /\ held = -1 /\ l = 1 /\ viol = {} /\ calls = 0

Step(name) == l <= N /\ Ev.ev = name /\ l' = l + 1

TCall ==
  /\ Step("call")
  /\ LET pre == IF Ev.pre < 0 THEN NoFile ELSE [exists |-> TRUE, len |-> Ev.pre, good |-> 0]
     IN files' = ("item" :> pre) /\ disks' = ("item" :> pre)
  /\ fds' = <<>> /\ size' = Ev.size /\ held' = (IF Ev.held THEN Ev.pre ELSE -1) /\ calls' = calls + 1 /\ viol' = viol

TOpen ==
  /\ Step("open")
  /\ LET F0 == Get(files, Ev.p)
         F1 == IF F0.exists THEN F0 ELSE (IF Ev.creat THEN [exists |-> TRUE, len |-> 0, good |-> 0] ELSE F0)
         F2 == IF Ev.trunc /\ F1.exists THEN [F1 EXCEPT !.len = 0, !.good = 0] ELSE F1
         D0 == Get(disks, Ev.p)
     IN /\ files' = Put(files, Ev.p, F2)
        /\ disks' = Put(disks, Ev.p, IF D0.exists \/ ~F2.exists THEN D0 ELSE [exists |-> TRUE, len |-> 0, good |-> 0])
  /\ fds' = Put(fds, Ev.fd, [p |-> Ev.p, off |-> 0, synced |-> FALSE])
  /\ UNCHANGED <<size, held, calls, viol>>

OnFd == Ev.fd \in DOMAIN fds
TTruncate ==
  /\ Step("ftruncate")
  /\ IF OnFd
     THEN LET p == fds[Ev.fd].p IN
          files' = Put(files, p, [files[p] EXCEPT !.len = Ev.len, !.good = Min2(files[p].good, Ev.len)])
     ELSE files' = files
  /\ UNCHANGED <<disks, fds, size, held, calls, viol>>

WriteAt(off, n) ==
  LET p == fds[Ev.fd].p
      F == files[p]
  IN Put(files, p, [F EXCEPT !.len = Max2(F.len, off + n),
                             !.good = IF F.good >= off THEN Max2(F.good, off + n) ELSE F.good])
TWrite ==
  /\ Step("write")
  /\ IF OnFd
     THEN /\ files' = WriteAt(fds[Ev.fd].off, Ev.n)
          /\ fds' = [fds EXCEPT ![Ev.fd].off = @ + Ev.n, ![Ev.fd].synced = FALSE]
     ELSE UNCHANGED <<files, fds>>
  /\ UNCHANGED <<disks, size, held, calls, viol>>
TPWrite ==
  /\ Step("pwrite")
  /\ IF OnFd
     THEN /\ files' = WriteAt(Ev.off, Ev.n)
          /\ fds' = [fds EXCEPT ![Ev.fd].synced = FALSE]
     ELSE UNCHANGED <<files, fds>>
  /\ UNCHANGED <<disks, size, held, calls, viol>>

TFsync ==
  /\ Step("fsync")
  /\ IF OnFd
     THEN LET p == fds[Ev.fd].p IN
          /\ disks' = Put(disks, p, files[p])
          /\ fds' = [fds EXCEPT ![Ev.fd].synced = TRUE]
     ELSE UNCHANGED <<disks, fds>>
  /\ UNCHANGED <<files, size, held, calls, viol>>

TClose ==
  /\ Step("close")
  /\ fds' = [x \in DOMAIN fds \ {Ev.fd} |-> fds[x]]
  /\ UNCHANGED <<files, disks, size, held, calls, viol>>

TUnlink ==
  /\ Step("unlink")
  /\ files' = Put(files, Ev.p, NoFile) /\ disks' = Put(disks, Ev.p, NoFile)
  /\ UNCHANGED <<fds, size, held, calls, viol>>

TRename ==
  /\ Step("rename")
  /\ files' = Put(Put(files, Ev.to, Get(files, Ev.from)), Ev.from, NoFile)
  /\ disks' = Put(Put(disks, Ev.to, Get(disks, Ev.from)), Ev.from, NoFile)
  /\ fds' = [x \in DOMAIN fds |-> IF fds[x].p = Ev.from THEN [fds[x] EXCEPT !.p = Ev.to] ELSE fds[x]]
  /\ UNCHANGED <<size, held, calls, viol>>

\* Persist returned: the C13 clauses
TRet ==
  /\ Step("ret")
  /\ LET F == Get(files, "item")
         D == Get(disks, "item")
     IN viol' = AddViol(
          IF Ev.err = ""
          THEN (IF ~Exact(F, size) THEN {"C13_success_but_file_not_exact"} ELSE {})
               \cup (IF D # F \/ ~Exact(D, size) THEN {"C13_success_but_not_flushed_after_last_write"} ELSE {})
          ELSE IF held >= 0
          \* refused because the file is in use: the earlier item, reported persisted, is still all there
          THEN (IF F # [exists |-> TRUE, len |-> held, good |-> 0] \/ D # F
                THEN {"C13_refused_persist_damaged_the_file_in_use"} ELSE {})
          ELSE (IF F.exists THEN {"C13_failure_left_a_file"} ELSE {}))
  /\ UNCHANGED <<files, disks, fds, size, held, calls>>

\* what the probe read back: binds the file-system model to the real one
TAfter ==
  /\ Step("after")
  /\ LET F == Get(files, "item")
     IN viol' = AddViol(
          (IF F.exists # Ev.exists \/ (F.exists /\ F.len # Ev.size) THEN {"DIV_model_and_file_system_disagree"} ELSE {})
          \cup (IF F.exists /\ Ev.exists /\ (Exact(F, size) # Ev.equal) THEN {"DIV_model_and_file_content_disagree"} ELSE {}))
  /\ UNCHANGED <<files, disks, fds, size, held, calls>>

Next == TCall \/ TOpen \/ TTruncate \/ TWrite \/ TPWrite \/ TFsync \/ TClose \/ TUnlink \/ TRename \/ TRet \/ TAfter
TraceSpec == Init /\ [][Next]_vars
TraceAccepted ==
  /\ IF TLCGet("stats").diameter - 1 = N THEN TRUE
     ELSE Print(<<"TRACE-NOT-CONSUMED", TLCGet("stats").diameter - 1, N>>, FALSE)
  /\ PrintT(<<"TRACE-DONE", N>>)
=============================================================================
