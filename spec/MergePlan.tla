------------------------------ MODULE MergePlan ------------------------------
(***************************************************************************)
(* The merge planner's contract (index/mergeplan/merge_plan.go) and the    *)
(* arrive / delete / plan / execute dynamics of the segment population.    *)
(*                                                                         *)
(* The float scoring that CHOOSES among candidate rosters is not modelled  *)
(* (TLC has no reals); it only selects among plans that satisfy PlanOK,    *)
(* so PlanOK is what the outputs of the real planner are validated         *)
(* against (MergePlanTrace.tla), and the dynamics below quantify over      *)
(* every planner that satisfies it.                                        *)
(***************************************************************************)
EXTENDS Integers, Sequences, FiniteSets, TLC

CONSTANTS MaxSegmentsPerTier, MaxSegmentSize, TierGrowth, SegmentsPerMergeTask, FloorSegmentSize,
          ArriveSizes,   \* sizes of arriving segments
          MaxSegs,       \* bound on the population (model checking)
          MaxArrivals

VARIABLES segs,      \* set of [id, full, live]
          arrivals

vars == <<segs, arrivals>>

Opts == [mpt |-> MaxSegmentsPerTier, max |-> MaxSegmentSize, g2 |-> 2 * TierGrowth,   \* g2 = twice the tier growth (so that 1.5, 2.5 are expressible)
         width |-> SegmentsPerMergeTask, floor |-> FloorSegmentSize]

Max2(a, b) == IF a > b THEN a ELSE b
RECURSIVE SumLive(_)
SumLive(S) == IF S = {} THEN 0 ELSE LET s == CHOOSE x \in S : TRUE IN s.live + SumLive(S \ {s})
MinLive(S) == (CHOOSE s \in S : \A t \in S : s.live <= t.live).live

\* findLiveSizesAndEligibles: only segments under half the maximum size
Eligible(o, S) == {s \in S : s.live < o.max \div 2}

\* CalcBudget, transcribed to integers (exact for integer options and sizes < 2^31):
\* climb a staircase of tiers of mpt segments each, tier size growing by growth = g2 / 2, rounded down
\* (the code: tierSize = int64(float64(tierSize) * tierGrowth))
RECURSIVE BudgetFrom(_, _, _)
BudgetFrom(o, total, tier) ==
  IF total <= 0 THEN 0
  ELSE IF total < o.mpt * tier
       THEN (total + tier - 1) \div tier          \* ceil(total / tier)
       ELSE o.mpt + BudgetFrom(o, total - o.mpt * tier, (tier * o.g2) \div 2)
Budget(o, S) ==
  IF S = {} THEN 0
  ELSE LET mpt == Max2(o.mpt, 1)
           oo == [o EXCEPT !.mpt = mpt, !.g2 = Max2(o.g2, 2)]
       IN BudgetFrom(oo, SumLive(Eligible(o, S)), Max2(Max2(MinLive(S), o.floor), 1))

\* ---- the contract of one Plan call ---------------------------------------------
\* tasks : a sequence of sets of segments
TaskUnion(tasks) == UNION {tasks[i] : i \in DOMAIN tasks}
AllEmpty(t) == \A s \in t : s.live <= 0
PlanOK(o, S, tasks) ==
  /\ \A i \in DOMAIN tasks : tasks[i] \subseteq S /\ tasks[i] # {}                \* only input segments
  /\ \A i, j \in DOMAIN tasks : i # j => tasks[i] \cap tasks[j] = {}              \* never in two tasks
  /\ \A i \in DOMAIN tasks : \A s \in tasks[i] : s.live < o.max \div 2             \* never touch a big segment
  /\ \A i \in DOMAIN tasks : AllEmpty(tasks[i]) \/ SumLive(tasks[i]) < o.max       \* never exceed the maximum
  /\ \A i \in DOMAIN tasks : AllEmpty(tasks[i]) \/ Cardinality(tasks[i]) <= o.width
  /\ LET left == Eligible(o, S) \ TaskUnion(tasks)                                  \* stop only when within budget
     IN Cardinality(S) <= 1 \/ left = {} \/ Cardinality(left) + Len(tasks) <= Budget(o, S)
\* a task makes progress: it merges at least two segments or reclaims deletions
Progress(t) == Cardinality(t) >= 2 \/ \E s \in t : s.live < s.full

\* executing the plan: each task becomes one segment holding the live data
\* (ids are recycled: the smallest ids not in use, so that the model stays finite)
FreeIds(S, n) == LET used == {s.id : s \in S}
                     cand == (1..(Cardinality(S) + n + 1)) \ used
                     RECURSIVE take(_, _)
                     take(C, k) == IF k = 0 THEN <<>> ELSE LET m == CHOOSE x \in C : \A y \in C : x <= y
                                                           IN <<m>> \o take(C \ {m}, k - 1)
                 IN take(cand, n)
Execute(S, tasks) ==
  LET rest == S \ TaskUnion(tasks)
      ids == FreeIds(rest, Len(tasks))
  IN rest \cup
     {[id |-> ids[i], full |-> SumLive(tasks[i]), live |-> SumLive(tasks[i])] :
         i \in {j \in DOMAIN tasks : SumLive(tasks[j]) > 0}}

\* ---- dynamics ---------------------------------------------------------------------
Init == segs = {} /\ arrivals = 0

Arrive(sz) ==
  /\ arrivals < MaxArrivals /\ Cardinality(segs) < MaxSegs
  /\ segs' = segs \cup {[id |-> FreeIds(segs, 1)[1], full |-> sz, live |-> sz]}
  /\ arrivals' = arrivals + 1

Delete(s, k) ==
  /\ s \in segs /\ k \in {1, s.live} /\ k >= 1 /\ k <= s.live
  /\ segs' = (segs \ {s}) \cup {[s EXCEPT !.live = s.live - k]}
  /\ UNCHANGED arrivals

\* any plan a contract-abiding, progressing planner may return, executed at once
Partitions(E) == {t \in SUBSET E : t # {}}
PlanAndExecute ==
  \E t1 \in Partitions(Eligible(Opts, segs)) \cup {{}} :
    \E t2 \in Partitions(Eligible(Opts, segs) \ t1) \cup {{}} :
      LET tasks == SelectSeq(<<t1, t2>>, LAMBDA t : t # {})
      IN /\ PlanOK(Opts, segs, tasks)
         /\ \A i \in DOMAIN tasks : Progress(tasks[i])
         /\ Len(tasks) > 0
         /\ segs' = Execute(segs, tasks)
         /\ UNCHANGED arrivals

Next == (\E sz \in ArriveSizes : Arrive(sz)) \/ (\E s \in segs : \E k \in {1, s.live} : Delete(s, k)) \/ PlanAndExecute
Spec == Init /\ [][Next]_vars
FairSpec == Spec /\ WF_vars(PlanAndExecute)

\* ---- properties (C19) ----------------------------------------------------------------
\* when no progressing plan exists the planner may (and must) return "nothing
\* to do", which the contract allows only within budget: the mergeable
\* population at rest is bounded by the budget, not by the number of batches
RestWithinBudget == (~ENABLED PlanAndExecute) => PlanOK(Opts, segs, <<>>)
\* the budget is logarithmic in the data: at most mpt segments per tier
RECURSIVE Tiers(_, _, _)
Tiers(o, total, tier) == IF total <= 0 THEN 0 ELSE 1 + Tiers(o, total - o.mpt * tier, (tier * o.g2) \div 2)
BudgetIsLogarithmic ==
  segs # {} => Budget(Opts, segs) <= Max2(Opts.mpt, 1) *
                  Tiers([Opts EXCEPT !.mpt = Max2(Opts.mpt, 1), !.g2 = Max2(Opts.g2, 2)],
                        SumLive(Eligible(Opts, segs)), Max2(Max2(MinLive(segs), Opts.floor), 1))
\* every plan strictly decreases (#segments, then #deleted documents), so that
\* without arrivals the planner runs out of work
Measure(S) == Cardinality(S) * 1000 + SumLive({[id |-> s.id, full |-> 0, live |-> s.full - s.live] : s \in S})
PlanDecreases == [][PlanAndExecute => Measure(segs') < Measure(segs)]_vars
Converges == <>[](~ENABLED PlanAndExecute)
TypeOK == \A s \in segs : s.live >= 0 /\ s.live <= s.full
=============================================================================
