\* the Persist protocol of the repaired code over all sizes x pre-states x failure points x power loss
SPECIFICATION Spec
CONSTANTS
  MaxSize = 5
  MaxPre = 7
  Chunk = 2
  Truncate = TRUE
  SyncOnPersist = TRUE
INVARIANTS TypeOK ExactOnSuccess SyncedOnSuccess DurableAfterSuccess NothingLeftOnFailure RefusedLeavesFileIntact
CHECK_DEADLOCK FALSE
