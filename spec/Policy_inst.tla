---------------------------- MODULE Policy_inst ----------------------------
EXTENDS Policy
ConstInit == KeepN = 2 /\ MaxE = 4 /\ MaxS = 3
ConstInit3 == KeepN = 3 /\ MaxE = 5 /\ MaxS = 3
ConstInit1 == KeepN = 1 /\ MaxE = 4 /\ MaxS = 3
=============================================================================
