------------------------------ MODULE CollectorCore ------------------------------
(***************************************************************************)
(* The top-N collector (search/collector/topn.go, search/sort.go).         *)
(*                                                                         *)
(* Abstract meaning: the complete match list, ordered by the sort keys     *)
(* with ties broken by index order (hit number) and missing values first   *)
(* or last as requested; a search returns the slice [from, from+n), the n  *)
(* matches after a key, or the n matches before a key.                     *)
(*                                                                         *)
(* Concrete machine: a transcription of collectSingle / finalizeResults    *)
(* (bounded store of size n+from, the lowest-match-outside-results         *)
(* shortcut, the search-after pseudo match, the final reversal for         *)
(* search-before).  TLC checks that the machine computes the abstract      *)
(* meaning for every hit list within the bounds (MC_collector.cfg); the    *)
(* same abstract operators judge real searches in CollectorTrace.tla.      *)
(*                                                                         *)
(* A hit is [id, hit, k]: hit = arrival (index) order, k = tuple of key    *)
(* values (integers; MISSING stands for a document without the field).     *)
(* An order is a sequence of [desc, mfirst].                               *)
(***************************************************************************)
EXTENDS Integers, Sequences, FiniteSets, TLC

MISSING == 1000000
Min2(a, b) == IF a < b THEN a ELSE b

Cmp1(x, y, o) == IF x = y THEN 0
                 ELSE IF x = MISSING THEN (IF o.mfirst THEN -1 ELSE 1)
                 ELSE IF y = MISSING THEN (IF o.mfirst THEN 1 ELSE -1)
                 ELSE IF (x < y) # o.desc THEN -1 ELSE 1
RECURSIVE CmpKeys(_, _, _, _)
CmpKeys(a, b, order, i) == IF i > Len(order) THEN 0
                           ELSE LET c == Cmp1(a[i], b[i], order[i]) IN IF c # 0 THEN c ELSE CmpKeys(a, b, order, i + 1)
\* SortOrder.Compare: keys first, then the hit number
Cmp(h1, h2, order) == LET c == CmpKeys(h1.k, h2.k, order, 1)
                      IN IF c # 0 THEN c ELSE IF h1.hit < h2.hit THEN -1 ELSE IF h1.hit > h2.hit THEN 1 ELSE 0
\* SortOrder.Reverse (used for search-before): descending and missing-first are flipped
RevOrder(order) == [i \in DOMAIN order |-> [desc |-> ~order[i].desc, mfirst |-> ~order[i].mfirst]]
Reverse(s) == [i \in 1..Len(s) |-> s[Len(s) + 1 - i]]
Take(s, n) == SubSeq(s, 1, Min2(n, Len(s)))

\* ---- abstract meaning ---------------------------------------------------------
Ranking(hits, order) == SortSeq(hits, LAMBDA a, b : Cmp(a, b, order) < 0)
Slice(hits, order, n, from) == LET r == Ranking(hits, order) IN SubSeq(r, from + 1, Min2(from + n, Len(r)))
\* the n matches whose keys sort strictly after the given key
AfterKey(hits, order, n, key) ==
  Take(SelectSeq(Ranking(hits, order), LAMBDA h : CmpKeys(h.k, key, order, 1) > 0), n)
\* search-before: collect "after" under the reversed order, then reverse the page
BeforeKey(hits, order, n, key) == Reverse(AfterKey(hits, RevOrder(order), n, key))
\* the order distinguishes all matches (no two hits with equal keys)
Total(hits, order) == \A i, j \in DOMAIN hits : i # j => CmpKeys(hits[i].k, hits[j].k, order, 1) # 0
IdsOf(s) == [i \in DOMAIN s |-> s[i].id]
=============================================================================
