------------------------------- MODULE Policy -------------------------------
(***************************************************************************)
(* The safety core of the keep-N deletion policy (index/deletion.go)       *)
(* together with the persister's obligation (persist the segments and the  *)
(* snapshot file BEFORE committing the epoch), small enough for an         *)
(* inductive-invariant check with Apalache:                                *)
(*     apalache-mc check --init=IndInit --inv=IndInv --length=1 Policy.tla *)
(*     apalache-mc check --init=Init    --inv=IndInv --length=0 Policy.tla *)
(* IndInv implies C11_Retained (every retained epoch is loadable) and      *)
(* C11_AtLeastN for ANY number of commits, clean-ups and failed removals,  *)
(* not only within the bounds TLC explores on BlugeCore.                   *)
(***************************************************************************)
EXTENDS Integers, FiniteSets

CONSTANTS
  \* @type: Int;
  KeepN,
  \* @type: Int;
  MaxE,
  \* @type: Int;
  MaxS

VARIABLES
  \* @type: Set(Int);
  live,        \* liveEpochs
  \* @type: Set(Int);
  deletable,   \* deletableEpochs
  \* @type: Set(<<Int, Int>>);
  liveSegs,    \* liveSegments as pairs <<epoch, segment>>
  \* @type: Set(Int);
  lsDom,       \* epochs with an entry in liveSegments
  \* @type: Set(Int);
  known,       \* knownSegmentFiles
  \* @type: Set(Int);
  fsnp,        \* complete snapshot files on disk
  \* @type: Set(<<Int, Int>>);
  fsnpSegs,    \* which segments a snapshot file lists
  \* @type: Set(Int);
  fseg         \* complete segment files on disk

Epochs == 1..MaxE
Segs == 1..MaxS
SegsOf(e) == {p[2] : p \in {q \in liveSegs : q[1] = e}}
FileSegsOf(e) == {p[2] : p \in {q \in fsnpSegs : q[1] = e}}
Loadable(e) == e \in fsnp /\ FileSegsOf(e) \subseteq fseg
Needed(s) == \E p \in liveSegs : p[2] = s
MaxOf(S) == CHOOSE x \in S : \A y \in S : y <= x
MinOf(S) == CHOOSE x \in S : \A y \in S : x <= y

Init ==
  /\ live = {} /\ deletable = {} /\ liveSegs = {} /\ lsDom = {} /\ known = {}
  /\ fsnp = {} /\ fsnpSegs = {} /\ fseg = {}

\* the persister writes a new segment file (ids are fresh: larger than anything on disk is not needed here)
WriteSeg(s) ==
  /\ s \notin fseg
  /\ fseg' = fseg \cup {s}
  /\ UNCHANGED <<live, deletable, liveSegs, lsDom, known, fsnp, fsnpSegs>>

\* the persister writes the snapshot file of a new epoch (newer than every committed one)
\* listing segments that are on disk, and commits it to the policy (Commit: deletion.go)
PersistAndCommit(e, ss) ==
  /\ \A x \in live \cup deletable \cup lsDom : x < e
  /\ e \notin fsnp
  /\ ss \subseteq fseg
  /\ fsnp' = fsnp \cup {e}
  /\ fsnpSegs' = fsnpSegs \cup {<<e, s>> : s \in ss}
  /\ liveSegs' = liveSegs \cup {<<e, s>> : s \in ss}
  /\ lsDom' = lsDom \cup {e}
  /\ known' = known \cup ss
  /\ IF Cardinality(live) >= KeepN
     THEN /\ live' = (live \ {MinOf(live)}) \cup {e}
          /\ deletable' = deletable \cup {MinOf(live)}
     ELSE /\ live' = live \cup {e}
          /\ deletable' = deletable
  /\ UNCHANGED fseg

\* cleanupSnapshots: one Remove; on success the epoch's entry in liveSegments goes too
RemoveSnapshot(e) ==
  /\ e \in deletable
  /\ fsnp' = fsnp \ {e}
  /\ fsnpSegs' = {p \in fsnpSegs : p[1] # e}
  /\ deletable' = deletable \ {e}
  /\ liveSegs' = {p \in liveSegs : p[1] # e}
  /\ lsDom' = lsDom \ {e}
  /\ UNCHANGED <<live, known, fseg>>

\* a failed Remove leaves everything as it is (it is retried at the next clean-up)
RemoveFails == UNCHANGED <<live, deletable, liveSegs, lsDom, known, fsnp, fsnpSegs, fseg>>

\* cleanupSegments: a known segment file that no remaining entry of liveSegments lists
RemoveSegment(s) ==
  /\ s \in known /\ ~Needed(s)
  /\ fseg' = fseg \ {s}
  /\ known' = known \ {s}
  /\ UNCHANGED <<live, deletable, liveSegs, lsDom, fsnp, fsnpSegs>>

Next ==
  \/ \E s \in Segs : WriteSeg(s)
  \/ \E e \in Epochs : \E ss \in SUBSET Segs : PersistAndCommit(e, ss)
  \/ \E e \in Epochs : RemoveSnapshot(e)
  \/ RemoveFails
  \/ \E s \in Segs : RemoveSegment(s)

\* ---- the inductive invariant ---------------------------------------------------------
TypeOK ==
  /\ live \in SUBSET Epochs /\ deletable \in SUBSET Epochs /\ lsDom \in SUBSET Epochs
  /\ liveSegs \in SUBSET (Epochs \X Segs) /\ fsnpSegs \in SUBSET (Epochs \X Segs)
  /\ known \in SUBSET Segs /\ fsnp \in SUBSET Epochs /\ fseg \in SUBSET Segs
IndInv ==
  /\ TypeOK
  /\ live \cap deletable = {}
  /\ lsDom = live \cup deletable                       \* every tracked epoch is retained or awaiting removal
  /\ \A p \in liveSegs : p[1] \in lsDom
  /\ \A e \in lsDom : e \in fsnp                        \* its snapshot file is still there
  /\ \A e \in lsDom : FileSegsOf(e) = SegsOf(e)         \* and lists exactly what the policy recorded
  /\ \A p \in liveSegs : p[2] \in fseg                  \* and every segment it lists is on disk
  /\ \A p \in fsnpSegs : p[1] \in fsnp
  /\ Cardinality(live) <= KeepN
  /\ (deletable # {} => Cardinality(live) = KeepN)      \* something is only given up when N are retained
  /\ \A d \in deletable : \A x \in live : d < x
\* what the listed property needs
C11_Retained == \A e \in live : Loadable(e)
C11_AtLeastN == (Cardinality(lsDom) >= KeepN) => Cardinality({e \in fsnp : Loadable(e)}) >= KeepN
IndInit == IndInv
GoalInv == C11_Retained /\ C11_AtLeastN
=============================================================================
