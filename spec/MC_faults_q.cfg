\* generated by the table in spec/gen_cfgs.py -- MC_faults_q
SPECIFICATION Spec
CONSTANTS
  Ids = {"a", "b"}
  Clients = {c1}
  Readers = {}
  Shapes <- ShapesC
  Safe = TRUE
  WithCallbacks = TRUE
  MinMemMerge = 2
  KeepN = 1
  TruncateOnPersist = TRUE
  WaitForSwap = TRUE
  MaxInv = 2
  MaxCrash = 0
  MaxMerges = 1
  MaxFaults = 2
  MaxReaderOpens = 0
  AllowClose = FALSE

CONSTRAINT Bound
INVARIANTS TypeOK C01_RootIsAbstract C01_SegIdsUnique C01_UpdateUnique C02_AckedDurable C03_DiskIsPrefix C03_Recoverable C03_EveryLoadableIsPrefix C04_ReaderFrozen C04_NoUseAfterClose C05_RealTime C05_ReturnedApplied C11_Retained C11_AtLeastN C11_RootFiles C11_OpenHandlesHaveFiles C11_HandlesBalanced C11_Lock C14_Surfaced C15_CloseDurable
PROPERTIES C06_Invisible C11_RemoveSafe C14_AckCovers
CHECK_DEADLOCK FALSE
