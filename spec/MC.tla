------------------------------- MODULE MC -------------------------------
EXTENDS BlugeCore
Upd(i) == [del |-> {i}, add |-> <<i>>]
Del(i) == [del |-> {i}, add |-> <<>>]
Ins(i) == [del |-> {}, add |-> <<i>>]
ShapesA == {Upd("a"), Upd("b"), Del("a")}
ShapesB == {Upd("a"), Del("a"), [del |-> {}, add |-> <<>>], [del |-> {"a", "b"}, add |-> <<"b">>], Ins("b")}
ShapesC == {Upd("a"), Del("a")}
Bound == nextH <= 12 /\ nextEpoch <= 16
\* liveness: one incarnation (no crash, no reopen), so the state space is finite
\* without a state constraint (a constraint could hide non-progress cycles)
LiveNext ==
  \/ \E c \in Clients, sh \in Shapes : Invoke(c, sh)
  \/ \E c \in Clients : Prepare(c) \/ IntroduceBatch(c) \/ Return(c)
  \/ \E r \in Readers : ReaderOpen(r) \/ ReaderClose(r)
  \/ PGrab \/ PMemMergeWrite \/ PMemMergeLoad \/ PMemMergeIntro \/ PPersistSeg \/ PLoadSeg
  \/ PSendPersist \/ IApplyPersist \/ PPersistSnap \/ PCommit \/ PAck
  \/ PCleanupSnap \/ PCleanupSeg \/ PCleanupDone \/ PFail
  \/ MWake \/ MPlan \/ MLoad \/ MIntro \/ MDone \/ MFail
  \/ CloseCall \/ IExit \/ PExit \/ MExit \/ CloseDone
LiveSpec == Init /\ [][LiveNext]_vars /\ WF_vars(PersisterStep) /\ WF_vars(MergerStep) /\ WF_vars(ClientStep)
                 /\ WF_vars(IExit) /\ WF_vars(CloseDone)
=========================================================================
