------------------------------- MODULE MC -------------------------------
EXTENDS BlugeCore
Upd(i) == [del |-> {i}, add |-> <<i>>]
Del(i) == [del |-> {i}, add |-> <<>>]
Ins(i) == [del |-> {}, add |-> <<i>>]
ShapesA == {Upd("a"), Upd("b"), Del("a")}
ShapesB == {Upd("a"), Del("a"), [del |-> {}, add |-> <<>>], [del |-> {"a", "b"}, add |-> <<"b">>], Ins("b")}
ShapesC == {Upd("a"), Del("a")}
Bound == nextH <= 9
=========================================================================
