SPECIFICATION TraceSpec
CONSTANTS
  TraceFile = "trace.ndjson"
POSTCONDITION TraceAccepted
CHECK_DEADLOCK FALSE
