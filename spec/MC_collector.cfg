SPECIFICATION Spec
CONSTANTS
  MaxHits = 5
  KeyVals = {1, 2, 1000000}
  MaxN = 3
  MaxFrom = 2
INVARIANTS Refines StoreBounded
CHECK_DEADLOCK FALSE
