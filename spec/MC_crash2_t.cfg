\* generated by the table in spec/gen_cfgs.py -- MC_crash2_t
SPECIFICATION Spec
CONSTANTS
  Ids = {"a", "b"}
  Clients = {c1}
  Readers = {}
  Shapes <- ShapesA
  Safe = TRUE
  WithCallbacks = FALSE
  MinMemMerge = 2
  KeepN = 1
  TruncateOnPersist = TRUE
  WaitForSwap = TRUE
  MaxInv = 3
  MaxCrash = 2
  MaxMerges = 0
  MaxFaults = 0
  MaxReaderOpens = 0
  AllowClose = FALSE
VIEW View
CONSTRAINT Bound
INVARIANTS TypeOK C01_RootIsAbstract C01_SegIdsUnique C01_UpdateUnique C02_AckedDurable C03_DiskIsPrefix C03_Recoverable C03_EveryLoadableIsPrefix C04_ReaderFrozen C04_NoUseAfterClose C05_ReturnedApplied C11_Retained C11_AtLeastN C11_RootFiles C11_OpenHandlesHaveFiles C11_HandlesBalanced C11_Lock C14_Surfaced C15_CloseDurable
PROPERTIES C06_Invisible C11_RemoveSafe C14_AckCovers
CHECK_DEADLOCK FALSE
