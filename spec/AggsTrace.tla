------------------------------ MODULE AggsTrace ------------------------------
(***************************************************************************)
(* Real searches with aggregations (harness cmd/aggprobe): every line      *)
(* carries the matched documents (from an AllMatches run of the same       *)
(* query), the request settings (n, from, sort, after) and the aggregation *)
(* values really reported; TLC evaluates Aggs.tla on the matched documents *)
(* -- the expected values do not depend on the settings at all.            *)
(***************************************************************************)
EXTENDS Aggs, Json

CONSTANT TraceFile
VARIABLES l, viol, nq
tvars == <<l, viol, nq>>
TraceLog == ndJsonDeserialize(TraceFile)
N == Len(TraceLog)
Ev == TraceLog[l]
Report(c) == PrintT(<<"VIOL", c, l, nq>>)
AddViol(S) == viol \cup {<<c, l>> : c \in {x \in S : Report(x)}}
TInit == l = 1 /\ viol = {} /\ nq = 0
Step(name) == l <= N /\ Ev.ev = name /\ l' = l + 1

\* ---- flat metrics ------------------------------------------------------------------
Metrics(e) ==
  LET D == e.docs
      a == e.aggs
  IN (IF a.count # Count(D) THEN {"C16_count"} ELSE {})
     \cup (IF a.sum # Sum(D, "n1") THEN {"C16_sum"} ELSE {})
     \cup (IF HasVals(D, "n1") /\ (a.minnone \/ a.min # MinV(D, "n1")) THEN {"C16_min"} ELSE {})
     \cup (IF HasVals(D, "n1") /\ (a.maxnone \/ a.max # MaxV(D, "n1")) THEN {"C16_max"} ELSE {})
     \cup (IF ~HasVals(D, "n1") /\ ~(a.minnone /\ a.maxnone) THEN {"C16_min_max_of_nothing"} ELSE {})
     \cup (IF NVals(D, "n1") > 0 /\ (a.avgnan \/ ~AvgOK(a.avg1000, Sum(D, "n1"), NVals(D, "n1"))) THEN {"C16_avg"} ELSE {})
     \cup (IF WTot(D, "n1", "n2") # 0 /\ (a.wavgnan \/ ~AvgOK(a.wavg1000, WSum(D, "n1", "n2"), WTot(D, "n1", "n2"))) THEN {"C16_weighted_avg"} ELSE {})
     \* weights that cancel out (or no weighted value at all): there is no average, the engine must not invent a number
     \cup (IF WTot(D, "n1", "n2") = 0 /\ ~a.wavgnan THEN {"C16_weighted_avg_of_zero_weight"} ELSE {})
     \cup (IF a.card # Cardinality(AllVals(D, "k1")) THEN {"C16_cardinality"} ELSE {})
     \cup (IF HasVals(D, "n1") /\ ~a.qerr /\
              (\E i \in DOMAIN a.q1000 : a.q1000[i] < MinV(D, "n1") * 1000 \/ a.q1000[i] > MaxV(D, "n1") * 1000)
           THEN {"C16_quantile_outside_min_max"} ELSE {})
     \cup (IF ~a.qerr /\ \E i \in DOMAIN a.q1000 : i > 1 /\ a.q1000[i] < a.q1000[i - 1]
           THEN {"C16_quantiles_not_monotone"} ELSE {})

\* ---- terms with nested metrics --------------------------------------------------------
\* buckets : sequence of [term, count, sum (nested sum of n1), n2max / n2none]
Terms(e) ==
  LET D == e.docs
      B == e.aggs.terms
      sz == e.aggs.tsize
      allT == AllVals(D, "k1")
      ret == {B[i].term : i \in DOMAIN B}
  IN (IF \E i \in DOMAIN B : B[i].count # TermCount(D, "k1", B[i].term) THEN {"C16_terms_bucket_count"} ELSE {})
     \cup (IF \E i \in DOMAIN B : B[i].sum # Sum(TermBucket(D, "k1", B[i].term), "n1") THEN {"C16_terms_nested_metric"} ELSE {})
     \cup (IF Len(B) # (IF Cardinality(allT) < sz THEN Cardinality(allT) ELSE sz) \/ Cardinality(ret) # Len(B) \/ ~(ret \subseteq allT)
           THEN {"C16_terms_wrong_buckets"} ELSE {})
     \* the returned buckets are the largest ones, in descending order of count
     \cup (IF \E t \in allT \ ret : \E i \in DOMAIN B : TermCount(D, "k1", t) > B[i].count THEN {"C16_terms_not_the_largest"} ELSE {})
     \cup (IF \E i \in DOMAIN B : i > 1 /\ B[i].count > B[i - 1].count THEN {"C16_terms_order"} ELSE {})
     \* single-valued field: the remainder accounts for every match not in a returned bucket
     \cup (IF SingleValued(D, "k1") /\ e.aggs.tother # Count(D) - SeqSum([i \in DOMAIN B |-> B[i].count])
           THEN {"C16_terms_remainder"} ELSE {})

\* ---- numeric and date ranges with nested metrics ------------------------------------------
\* ranges : sequence of [lo, hi, count, sum2 (nested sum of n2), max1 / max1none (nested max of n1)]
Ranges(e) ==
  LET D == e.docs
      R == e.aggs.ranges
      T == e.aggs.dranges
  IN (IF \E i \in DOMAIN R : R[i].count # Len(RangeBucket(D, "n1", R[i].lo, R[i].hi)) THEN {"C16_range_bucket_count"} ELSE {})
     \cup (IF \E i \in DOMAIN R : R[i].sum2 # Sum(RangeBucket(D, "n1", R[i].lo, R[i].hi), "n2") THEN {"C16_range_nested_sum"} ELSE {})
     \cup (IF \E i \in DOMAIN R : LET b == RangeBucket(D, "n1", R[i].lo, R[i].hi)
                                  IN IF HasVals(b, "n1") THEN R[i].max1none \/ R[i].max1 # MaxV(b, "n1") ELSE ~R[i].max1none
           THEN {"C16_range_nested_max"} ELSE {})
     \* a cardinality nested in the buckets: the distinct keyword values of THAT bucket's documents
     \cup (IF \E i \in DOMAIN R : "card" \in DOMAIN R[i] /\ R[i].card # Cardinality(AllVals(RangeBucket(D, "n1", R[i].lo, R[i].hi), "k1"))
           THEN {"C16_range_nested_cardinality"} ELSE {})
     \cup (IF \E i \in DOMAIN T : T[i].count # Len(RangeBucket(D, "t1", T[i].lo, T[i].hi)) THEN {"C16_date_range_bucket_count"} ELSE {})
     \* nested metrics over a field that nothing else in the request mentions
     \cup (IF \E i \in DOMAIN R : R[i].sum3 # Sum(RangeBucket(D, "n1", R[i].lo, R[i].hi), "n3") THEN {"C16_range_nested_sum_of_private_field"} ELSE {})
     \cup (IF \E i \in DOMAIN T : T[i].sum3 # Sum(RangeBucket(D, "t1", T[i].lo, T[i].hi), "n3") THEN {"C16_date_range_nested_sum_of_private_field"} ELSE {})

TAgg ==
  /\ Step("agg")
  /\ viol' = AddViol(IF Ev.err # "" THEN {"C16_search_failed"} ELSE Metrics(Ev) \cup Terms(Ev) \cup Ranges(Ev))
  /\ nq' = nq + 1

\* a generated aggregation tree: the request, the matched documents, the reported results (same shape)
TTree ==
  /\ Step("aggtree")
  /\ viol' = AddViol(IF Ev.err # "" THEN {"C16_search_failed"} ELSE ChkRequest(Ev.req, Ev.res, Ev.docs))
  /\ nq' = nq + 1

TraceSpec == TInit /\ [][TAgg \/ TTree]_tvars
TraceAccepted ==
  /\ IF TLCGet("stats").diameter - 1 = N THEN TRUE
     ELSE Print(<<"TRACE-NOT-CONSUMED", TLCGet("stats").diameter - 1, N>>, FALSE)
  /\ PrintT(<<"TRACE-DONE", N>>)
=============================================================================
