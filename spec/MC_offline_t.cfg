SPECIFICATION LiveSpec
CONSTANTS
  BatchSize = 1
  MergeMax = 10
  CloseOnSnapshotError = TRUE
  MaxDocs = 60
INVARIANTS TypeOK O_NothingLost O_SnapshotComplete O_Closed O_HandlesReleased O_Ids
PROPERTIES O_RemoveAfterClose O_RoundsShrink O_Terminates
CHECK_DEADLOCK FALSE
